package keyproof

import (
	"github.com/privacybydesign/gabi/big"
	"github.com/privacybydesign/gabi/internal/common"
	"github.com/privacybydesign/gabi/zkproof"
)

func init() {
	vpHarnesses["vpC17_O1"] = vpC17_O1
}

// the 1024-bit safe prime of RFC 2409 (second Oakley group), used for native replays
const vpOakley2 = "FFFFFFFFFFFFFFFFC90FDAA22168C234C4C6628B80DC1CD129024E088A67CC74020BBEA63B139B22514A08798E3404DDEF9519B3CD3A431B302B0A6DF25F14374FE1356D6D51C245E485B576625E7EC6F44C42E9A637ED6B0BFF5CB6F406B7EDEE386BFB5A899FA5AE9F24117C4B1FE649286651ECE65381FFFFFFFFFFFFFFFF"

// vpGroup: the proof group. Symbolically an arbitrary 1024-bit safe prime P with
// independent generators g, h of the subgroup of order (P-1)/2; natively the group
// BuildGroup makes for a fixed safe prime.
func vpGroup() zkproof.Group {
	if vpNative() {
		p, _ := new(big.Int).SetString(vpOakley2, 16)
		g, ok := zkproof.BuildGroup(p)
		if !ok {
			panic("vpGroup: not a safe prime")
		}
		return g
	}
	var g zkproof.Group
	g.P = vpModulus("grpP", 1024)
	g.Order = vpHalfOrder("grpOrder", g.P)
	g.G = vpAtom("g", g.P)
	g.H = vpAtom("h", g.P)
	g.GTable.Compute(g.G.Go(), g.P.Go(), 7)
	g.HTable.Compute(g.H.Go(), g.P.Go(), 7)
	g.PMod.Set(g.P)
	g.OrderMod.Set(g.Order)
	return g
}

func vpSameList(a, b []*big.Int) bool {
	if len(a) != len(b) {
		return false
	}
	same := true
	for i := range a {
		if a[i].Cmp(b[i]) != 0 {
			same = false
		}
	}
	return same
}

// C17-O1: the core of the key-correctness proof - Pedersen commitments to p, q,
// p', q' and the three relations p = 2p'+1, q = 2q'+1, N = pq - composed from the
// real component code the way ValidKeyProofStructure.BuildProof/VerifyProof
// compose it. For arbitrary 64-bit p', q' (p = 2p'+1, q = 2q'+1, N = pq): the
// verifier's reconstructed commitment list equals the prover's (completeness).
// After changing one leaf of the proof (a commitment, a response), the modulus N
// the structure was made for, or the challenge, the reconstructed list hashes to
// something else than the challenge (rejection). A prover whose values do not
// satisfy the relations (p != 2p'+1 or N != pq) is rejected as well.
func vpC17_O1() {
	g := vpGroup()
	pprime, qprime := vpBigBits("pprime", 64), vpBigBits("qprime", 64)
	vpAssume(pprime.Sign() > 0 && qprime.Sign() > 0)
	P := new(big.Int).Add(new(big.Int).Lsh(pprime, 1), big.NewInt(1))
	Q := new(big.Int).Add(new(big.Int).Lsh(qprime, 1), big.NewInt(1))
	N := new(big.Int).Mul(P, Q)
	cheat := vpChoose("cheat", 3) // 0 honest; 1: committed p differs from 2p'+1; 2: structure made for another modulus than pq
	if cheat == 1 {
		P = new(big.Int).Add(P, vpBigRange("dp", big.NewInt(1), big.NewInt(1<<20)))
	}
	sN := N
	if cheat == 2 {
		sN = new(big.Int).Add(N, vpBigRange("dn", big.NewInt(1), big.NewInt(1<<20)))
	}
	s := NewValidKeyProofStructure(sN, []*big.Int{big.NewInt(4)})

	// prover (as in BuildProof)
	list, PprimeSecret := s.pprime.commitmentsFromSecrets(g, nil, pprime)
	list, QprimeSecret := s.qprime.commitmentsFromSecrets(g, list, qprime)
	list, PSecret := s.p.commitmentsFromSecrets(g, list, P)
	list, QSecret := s.q.commitmentsFromSecrets(g, list, Q)
	PQNRel := newSecret(g, "pqnrel", new(big.Int).Mod(new(big.Int).Mul(PSecret.hider.secretv, QSecret.secretv.secretv), g.Order))
	bases := zkproof.NewBaseMerge(&g, &PSecret, &QSecret, &PprimeSecret, &QprimeSecret)
	secrets := zkproof.NewSecretMerge(&PSecret, &QSecret, &PprimeSecret, &QprimeSecret, &PQNRel)
	list = append(list, g.P)
	list = append(list, s.n)
	list = s.pPprimeRel.CommitmentsFromSecrets(g, list, &bases, &secrets)
	list = s.qQprimeRel.CommitmentsFromSecrets(g, list, &bases, &secrets)
	list = s.pQNRel.CommitmentsFromSecrets(g, list, &bases, &secrets)
	challenge := common.HashCommit(list, false)
	proofPQN := PQNRel.buildProof(g, challenge)
	pP, pQ := s.p.buildProof(g, challenge, PSecret), s.q.buildProof(g, challenge, QSecret)
	pPp, pQp := s.pprime.buildProof(g, challenge, PprimeSecret), s.qprime.buildProof(g, challenge, QprimeSecret)

	// adversarial change of one leaf
	tamper := 0
	if cheat == 0 {
		tamper = vpChoose("tamper", 9)
	}
	d := vpBigRange("delta", big.NewInt(1), new(big.Int).Lsh(big.NewInt(1), 200))
	vchallenge := challenge
	switch tamper {
	case 1:
		pP.Commit = new(big.Int).Add(pP.Commit, d)
	case 2:
		pP.Sresult.Result = new(big.Int).Add(pP.Sresult.Result, d)
	case 3:
		pQ.Hresult.Result = new(big.Int).Add(pQ.Hresult.Result, d)
	case 4:
		pPp.Commit = new(big.Int).Add(pPp.Commit, d)
	case 5:
		pQp.Sresult.Result = new(big.Int).Add(pQp.Sresult.Result, d)
	case 6:
		proofPQN.Result = new(big.Int).Add(proofPQN.Result, d)
	case 7:
		vchallenge = new(big.Int).Add(challenge, d)
	case 8:
		// the proofs for p and q exchanged
		pP, pQ = pQ, pP
		vpAssume(P.Cmp(Q) != 0)
	}

	// verifier (as in VerifyProof)
	vpAssert("proof structures are complete", s.p.verifyProofStructure(pP) && s.q.verifyProofStructure(pQ) && s.pprime.verifyProofStructure(pPp) && s.qprime.verifyProofStructure(pQp) && proofPQN.verifyStructure())
	pP.setName("p")
	pQ.setName("q")
	pPp.setName("pprime")
	pQp.setName("qprime")
	proofPQN.setName("pqnrel")
	vbases := zkproof.NewBaseMerge(&g, &pP, &pQ, &pPp, &pQp)
	vproofs := zkproof.NewProofMerge(&pP, &pQ, &pPp, &pQp, &proofPQN)
	var vlist []*big.Int
	vlist = s.pprime.commitmentsFromProof(g, vlist, vchallenge, pPp)
	vlist = s.qprime.commitmentsFromProof(g, vlist, vchallenge, pQp)
	vlist = s.p.commitmentsFromProof(g, vlist, vchallenge, pP)
	vlist = s.q.commitmentsFromProof(g, vlist, vchallenge, pQ)
	vlist = append(vlist, g.P)
	vlist = append(vlist, s.n)
	vlist = s.pPprimeRel.CommitmentsFromProof(g, vlist, vchallenge, &vbases, &vproofs)
	vlist = s.qQprimeRel.CommitmentsFromProof(g, vlist, vchallenge, &vbases, &vproofs)
	vlist = s.pQNRel.CommitmentsFromProof(g, vlist, vchallenge, &vbases, &vproofs)
	accepted := vchallenge.Cmp(common.HashCommit(vlist, false)) == 0

	if cheat == 0 && tamper == 0 {
		vpAssert("honest core proof: reconstructed commitments equal the prover's", vpSameList(list, vlist))
		vpAssert("honest core proof is accepted", accepted)
	} else if cheat != 0 {
		vpAssert("a prover whose values violate the key relations is rejected", !accepted)
	} else {
		vpAssert("a core proof with an altered leaf is rejected", !accepted)
	}
}
