package keyproof

import (
	"fmt"

	"github.com/privacybydesign/gabi/big"
	"github.com/privacybydesign/gabi/internal/common"
	"github.com/privacybydesign/gabi/zkproof"
)

func init() {
	vpHarnesses["vpC17_O1"] = vpC17_O1
}

// the 1024-bit safe prime of RFC 2409 (second Oakley group), used for native replays
const vpOakley2 = "FFFFFFFFFFFFFFFFC90FDAA22168C234C4C6628B80DC1CD129024E088A67CC74020BBEA63B139B22514A08798E3404DDEF9519B3CD3A431B302B0A6DF25F14374FE1356D6D51C245E485B576625E7EC6F44C42E9A637ED6B0BFF5CB6F406B7EDEE386BFB5A899FA5AE9F24117C4B1FE649286651ECE65381FFFFFFFFFFFFFFFF"

// vpGroup: the proof group. Symbolically an arbitrary 1024-bit safe prime P with
// independent generators g, h of the subgroup of order (P-1)/2; natively the group
// BuildGroup makes for a fixed safe prime.
func vpGroup() zkproof.Group {
	if vpNative() {
		p, _ := new(big.Int).SetString(vpOakley2, 16)
		g, ok := zkproof.BuildGroup(p)
		if !ok {
			panic("vpGroup: not a safe prime")
		}
		return g
	}
	var g zkproof.Group
	g.P = vpModulus("grpP", 1024)
	g.Order = vpHalfOrder("grpOrder", g.P)
	g.G = vpAtom("g", g.P)
	g.H = vpAtom("h", g.P)
	g.GTable.Compute(g.G.Go(), g.P.Go(), 7)
	g.HTable.Compute(g.H.Go(), g.P.Go(), 7)
	g.PMod.Set(g.P)
	g.OrderMod.Set(g.Order)
	return g
}

// two 96-bit safe primes for native replays
const vpSafeP, vpSafeQ = "61449930866110332855357088823", "64768333194008919977202027947"

func vpNativeModulus() (N, phi *big.Int) {
	p, _ := new(big.Int).SetString(vpSafeP, 10)
	q, _ := new(big.Int).SetString(vpSafeQ, 10)
	one := big.NewInt(1)
	return new(big.Int).Mul(p, q), new(big.Int).Mul(new(big.Int).Sub(p, one), new(big.Int).Sub(q, one))
}

func vpSameList(a, b []*big.Int) bool {
	if len(a) != len(b) {
		return false
	}
	same := true
	for i := range a {
		if a[i].Cmp(b[i]) != 0 {
			same = false
		}
	}
	return same
}

// C17-O1: the core of the key-correctness proof - Pedersen commitments to p, q,
// p', q' and the three relations p = 2p'+1, q = 2q'+1, N = pq - composed from the
// real component code the way ValidKeyProofStructure.BuildProof/VerifyProof
// compose it. For arbitrary 64-bit p', q' (p = 2p'+1, q = 2q'+1, N = pq): the
// verifier's reconstructed commitment list equals the prover's (completeness).
// After changing one leaf of the proof (a commitment, a response), the modulus N
// the structure was made for, or the challenge, the reconstructed list hashes to
// something else than the challenge (rejection). A prover whose values do not
// satisfy the relations (p != 2p'+1 or N != pq) is rejected as well.
func vpC17_O1() {
	g := vpGroup()
	pprime, qprime := vpBigBits("pprime", 64), vpBigBits("qprime", 64)
	vpAssume(pprime.Sign() > 0 && qprime.Sign() > 0)
	P := new(big.Int).Add(new(big.Int).Lsh(pprime, 1), big.NewInt(1))
	Q := new(big.Int).Add(new(big.Int).Lsh(qprime, 1), big.NewInt(1))
	N := new(big.Int).Mul(P, Q)
	cheat := vpChoose("cheat", 3) // 0 honest; 1: committed p differs from 2p'+1; 2: structure made for another modulus than pq
	if cheat == 1 {
		P = new(big.Int).Add(P, vpBigRange("dp", big.NewInt(1), big.NewInt(1<<20)))
	}
	sN := N
	if cheat == 2 {
		sN = new(big.Int).Add(N, vpBigRange("dn", big.NewInt(1), big.NewInt(1<<20)))
	}
	s := NewValidKeyProofStructure(sN, []*big.Int{big.NewInt(4)})
	// wiring of the structure: which committed value each part talks about
	half := uint((sN.BitLen() + 1) / 2)
	vpAssert("the parts of the key proof structure talk about p, q, p', q' and N", s.p.name == "p" && s.q.name == "q" && s.pprime.name == "pprime" && s.qprime.name == "qprime" &&
		s.pprimeIsPrime.primeName == "pprime" && s.qprimeIsPrime.primeName == "qprime" && s.pprimeIsPrime.bitlen == half && s.qprimeIsPrime.bitlen == half &&
		s.n.Cmp(sN) == 0 && s.basesValid.n.Cmp(sN) == 0 && len(s.basesValid.squares) == 1)

	// prover (as in BuildProof)
	list, PprimeSecret := s.pprime.commitmentsFromSecrets(g, nil, pprime)
	list, QprimeSecret := s.qprime.commitmentsFromSecrets(g, list, qprime)
	list, PSecret := s.p.commitmentsFromSecrets(g, list, P)
	list, QSecret := s.q.commitmentsFromSecrets(g, list, Q)
	PQNRel := newSecret(g, "pqnrel", new(big.Int).Mod(new(big.Int).Mul(PSecret.hider.secretv, QSecret.secretv.secretv), g.Order))
	bases := zkproof.NewBaseMerge(&g, &PSecret, &QSecret, &PprimeSecret, &QprimeSecret)
	secrets := zkproof.NewSecretMerge(&PSecret, &QSecret, &PprimeSecret, &QprimeSecret, &PQNRel)
	list = append(list, g.P)
	list = append(list, s.n)
	list = s.pPprimeRel.CommitmentsFromSecrets(g, list, &bases, &secrets)
	list = s.qQprimeRel.CommitmentsFromSecrets(g, list, &bases, &secrets)
	list = s.pQNRel.CommitmentsFromSecrets(g, list, &bases, &secrets)
	challenge := common.HashCommit(list, false)
	proofPQN := PQNRel.buildProof(g, challenge)
	pP, pQ := s.p.buildProof(g, challenge, PSecret), s.q.buildProof(g, challenge, QSecret)
	pPp, pQp := s.pprime.buildProof(g, challenge, PprimeSecret), s.qprime.buildProof(g, challenge, QprimeSecret)

	// adversarial change of one leaf
	tamper := 0
	if cheat == 0 {
		tamper = vpChoose("tamper", 9)
	}
	d := vpBigRange("delta", big.NewInt(1), new(big.Int).Lsh(big.NewInt(1), 200))
	vchallenge := challenge
	switch tamper {
	case 1:
		pP.Commit = new(big.Int).Add(pP.Commit, d)
	case 2:
		pP.Sresult.Result = new(big.Int).Add(pP.Sresult.Result, d)
	case 3:
		pQ.Hresult.Result = new(big.Int).Add(pQ.Hresult.Result, d)
	case 4:
		pPp.Commit = new(big.Int).Add(pPp.Commit, d)
	case 5:
		pQp.Sresult.Result = new(big.Int).Add(pQp.Sresult.Result, d)
	case 6:
		proofPQN.Result = new(big.Int).Add(proofPQN.Result, d)
	case 7:
		vchallenge = new(big.Int).Add(challenge, d)
	case 8:
		// the proofs for p and q exchanged
		pP, pQ = pQ, pP
		vpAssume(P.Cmp(Q) != 0)
	}

	// verifier (as in VerifyProof)
	vpAssert("proof structures are complete", s.p.verifyProofStructure(pP) && s.q.verifyProofStructure(pQ) && s.pprime.verifyProofStructure(pPp) && s.qprime.verifyProofStructure(pQp) && proofPQN.verifyStructure())
	pP.setName("p")
	pQ.setName("q")
	pPp.setName("pprime")
	pQp.setName("qprime")
	proofPQN.setName("pqnrel")
	vbases := zkproof.NewBaseMerge(&g, &pP, &pQ, &pPp, &pQp)
	vproofs := zkproof.NewProofMerge(&pP, &pQ, &pPp, &pQp, &proofPQN)
	var vlist []*big.Int
	vlist = s.pprime.commitmentsFromProof(g, vlist, vchallenge, pPp)
	vlist = s.qprime.commitmentsFromProof(g, vlist, vchallenge, pQp)
	vlist = s.p.commitmentsFromProof(g, vlist, vchallenge, pP)
	vlist = s.q.commitmentsFromProof(g, vlist, vchallenge, pQ)
	vlist = append(vlist, g.P)
	vlist = append(vlist, s.n)
	vlist = s.pPprimeRel.CommitmentsFromProof(g, vlist, vchallenge, &vbases, &vproofs)
	vlist = s.qQprimeRel.CommitmentsFromProof(g, vlist, vchallenge, &vbases, &vproofs)
	vlist = s.pQNRel.CommitmentsFromProof(g, vlist, vchallenge, &vbases, &vproofs)
	accepted := vchallenge.Cmp(common.HashCommit(vlist, false)) == 0

	if cheat == 0 && tamper == 0 {
		vpAssert("honest core proof: reconstructed commitments equal the prover's", vpSameList(list, vlist))
		vpAssert("honest core proof is accepted", accepted)
	} else if cheat != 0 {
		vpAssert("a prover whose values violate the key relations is rejected", !accepted)
	} else {
		vpAssert("a core proof with an altered leaf is rejected", !accepted)
	}
}

func init() {
	vpHarnesses["vpC17_O2"] = vpC17_O2
	vpHarnesses["vpC17_O3"] = vpC17_O3
	vpHarnesses["vpC17_O5"] = vpC17_O5
}

func vpAddBig(x, d *big.Int) *big.Int { return new(big.Int).Add(x, d) }

// vpTamperRange alters one leaf of a range proof: entry i of the list of secret `name`.
func vpTamperRange(rp RangeProof, name string, i int, d *big.Int) {
	rp.Results[name][i] = vpAddBig(rp.Results[name][i], d)
}

// C17-O2: the cut-and-choose range proof (rangeProofStructure) on a Pedersen
// commitment, rounds reduced by a source override (stated bound; the rounds are
// identical), challenge = the real hash of the commitment list. Completeness:
// for every value of at most l2 bits the verifier's list equals the prover's
// and the structure check passes. Rejection: one altered response (of the range
// secret or of the hider, any round), a missing or nil entry, a response at or
// above the size limit, another challenge.
func vpC17_O2() {
	g := vpGroup()
	const l2 = 16
	ped := newPedersenStructure("x")
	rs := newPedersenRangeProofStructure("x", 0, l2)
	v := vpBigBits("x", l2)
	vpAssume(v.Sign() >= 0)
	list, pc := ped.commitmentsFromSecrets(g, nil, v)
	bases := zkproof.NewBaseMerge(&g, &pc)
	list, rc := rs.commitmentsFromSecrets(g, list, &bases, &pc)
	challenge := common.HashCommit(list, false)
	pp := ped.buildProof(g, challenge, pc)
	rp := rs.buildProof(g, challenge, rc, &pc)

	rounds := len(rp.Results["x"])
	vpAssert("range proof has one response per round and secret", rounds == rangeProofIters && len(rp.Results["x_hider"]) == rounds)
	tamper := vpChoose("tamper", 8)
	d := vpBigRange("delta", big.NewInt(1), new(big.Int).Lsh(big.NewInt(1), 100))
	structureBroken := false
	vchallenge := challenge
	switch tamper {
	case 1:
		vpTamperRange(rp, "x", vpChoose("round", rounds), d)
	case 2:
		vpTamperRange(rp, "x_hider", vpChoose("round", rounds), d)
	case 3:
		rp.Results["x"] = rp.Results["x"][:rounds-1]
		structureBroken = true
	case 4:
		rp.Results["x_hider"][vpChoose("round", rounds)] = nil
		structureBroken = true
	case 5: // a response at or above 2^(l2+epsilon+2)
		rp.Results["x"][vpChoose("round", rounds)] = vpAddBig(new(big.Int).Lsh(big.NewInt(1), l2+rangeProofEpsilon+2), vpBigBits("excess", 20))
		structureBroken = true
	case 6:
		vchallenge = vpAddBig(challenge, d)
	case 7:
		delete(rp.Results, "x_hider")
		structureBroken = true
	}
	structureOK := ped.verifyProofStructure(pp) && rs.verifyProofStructure(rp)
	if structureBroken {
		vpAssert("a range proof with a missing, nil or oversized response fails the structure check", !structureOK)
		return
	}
	vpAssert("range proof structure check passes", structureOK)
	pp.setName("x")
	vbases := zkproof.NewBaseMerge(&g, &pp)
	vlist := ped.commitmentsFromProof(g, nil, vchallenge, pp)
	vlist = rs.commitmentsFromProof(g, vlist, vchallenge, &vbases, rp)
	accepted := vchallenge.Cmp(common.HashCommit(vlist, false)) == 0
	if tamper == 0 {
		vpAssert("honest range proof: reconstructed commitments equal the prover's", vpSameList(list, vlist))
		vpAssert("honest range proof is accepted", accepted)
	} else {
		vpAssert("a range proof with an altered leaf is rejected", !accepted)
	}
}

// vpPed commits to a value under a name, as the surrounding proofs do.
func vpPed(g zkproof.Group, list []*big.Int, name string, v *big.Int) ([]*big.Int, pedersenStructure, pedersenCommit) {
	s := newPedersenStructure(name)
	list, c := s.commitmentsFromSecrets(g, list, v)
	return list, s, c
}

// C17-O3: multiplication and addition proofs (m1*m2 = r and a1+a2 = r modulo a
// committed modulus, with their range proofs). For arbitrary 8-bit operands and
// quotient k (r = m1*m2 - k*mod resp. a1+a2+k*mod): completeness; rejection of
// an altered leaf (Pedersen commitment, hider/mod response, a range response)
// and of a prover whose committed result differs from the true one - also when that
// prover commits to the quotient computed modulo the group order.
func vpC17_O3() {
	g := vpGroup()
	const l = 16
	add := vpBool("addition")
	x1, x2 := vpBigBits("x1", 8), vpBigBits("x2", 8)
	mod := big.NewInt(251)
	k := vpBigBits("k", 8)
	vpAssume(x1.Sign() >= 0 && x2.Sign() >= 0 && k.Sign() >= 0)
	var r *big.Int
	if add {
		r = new(big.Int).Add(new(big.Int).Add(x1, x2), new(big.Int).Mul(k, mod))
	} else {
		r = new(big.Int).Sub(new(big.Int).Mul(x1, x2), new(big.Int).Mul(k, mod))
	}
	cheat := vpBool("wrongResult")
	if cheat {
		r = vpAddBig(r, vpBigRange("dr", big.NewInt(1), big.NewInt(250)))
	}
	// fieldQuotient: for the wrong result the prover does not commit to the integer quotient (there is
	// none) but to k = (x1*x2 - r) / mod computed modulo the group order - a huge number, for which
	// the honest response formula yields negative range responses
	fieldQuotient := cheat && !add && vpBool("fieldQuotient")
	var list []*big.Int
	list, s1, c1 := vpPed(g, list, "x1", x1)
	list, s2, c2 := vpPed(g, list, "x2", x2)
	list, sm, cm := vpPed(g, list, "mod", mod)
	list, sr, cr := vpPed(g, list, "r", r)
	bases := zkproof.NewBaseMerge(&g, &c1, &c2, &cm, &cr)
	secrets := zkproof.NewSecretMerge(&c1, &c2, &cm, &cr)
	ms := newMultiplicationProofStructure("x1", "x2", "mod", "r", l)
	as := newAdditionProofStructure("x1", "x2", "mod", "r", l)
	var mc multiplicationProofCommit
	var ac additionProofCommit
	if add {
		list, ac = as.commitmentsFromSecrets(g, list, &bases, &secrets)
	} else if fieldQuotient {
		inv, ok := common.ModInverse(mod, g.Order)
		vpAssume(ok)
		kf := new(big.Int).Mod(new(big.Int).Mul(new(big.Int).Sub(new(big.Int).Mul(x1, x2), r), inv), g.Order)
		// kf is huge: were it below order/mod, kf*mod = x1*x2 - r would hold over the integers, but
		// x1*x2 - r = k*mod - dr is not a multiple of mod (the algebraic model does not know the integer value)
		vpAssume(kf.BitLen() > l+rangeProofEpsilon+3)
		list, mc.modMultPedersen = ms.modMultPedersen.commitmentsFromSecrets(g, list, kf)
		hd := new(big.Int).Sub(cr.hider.secretv, new(big.Int).Mul(x1, c2.hider.secretv))
		hd.Add(hd, new(big.Int).Mul(kf, cm.hider.secretv))
		mc.hider = newSecret(g, ms.myname+"_hider", hd.Mod(hd, g.Order))
		inner := zkproof.NewSecretMerge(&mc.hider, &mc.modMultPedersen, &secrets)
		list = ms.multRepresentation.CommitmentsFromSecrets(g, list, &bases, &inner)
		list, mc.rangeCommit = ms.modMultRange.commitmentsFromSecrets(g, list, &bases, &inner)
	} else {
		list, mc = ms.commitmentsFromSecrets(g, list, &bases, &secrets)
	}
	challenge := common.HashCommit(list, false)
	p1, p2, pm, pr := s1.buildProof(g, challenge, c1), s2.buildProof(g, challenge, c2), sm.buildProof(g, challenge, cm), sr.buildProof(g, challenge, cr)
	var mp MultiplicationProof
	var ap AdditionProof
	if add {
		ap = as.buildProof(g, challenge, ac, &secrets)
	} else {
		mp = ms.buildProof(g, challenge, mc, &secrets)
	}
	tamper := 0
	if !cheat {
		tamper = vpChoose("tamper", 5)
	}
	d := vpBigRange("delta", big.NewInt(1), new(big.Int).Lsh(big.NewInt(1), 100))
	switch tamper {
	case 1:
		pr.Commit = vpAddBig(pr.Commit, d)
	case 2:
		if add {
			ap.HiderProof.Result = vpAddBig(ap.HiderProof.Result, d)
		} else {
			mp.Hider.Result = vpAddBig(mp.Hider.Result, d)
		}
	case 3:
		if add {
			ap.ModAddProof.Result = vpAddBig(ap.ModAddProof.Result, d)
		} else {
			mp.ModMultProof.Commit = vpAddBig(mp.ModMultProof.Commit, d)
		}
	case 4:
		if add {
			vpTamperRange(ap.RangeProof, as.addRange.rangeSecret, vpChoose("round", rangeProofIters), d)
		} else {
			vpTamperRange(mp.RangeProof, ms.modMultRange.rangeSecret, vpChoose("round", rangeProofIters), d)
		}
	}
	if add {
		vpAssert("addition proof structure check passes", as.verifyProofStructure(ap))
	} else if fieldQuotient {
		if !ms.verifyProofStructure(mp) {
			return // refused by the structure check: fine
		}
	} else {
		vpAssert("multiplication proof structure check passes", ms.verifyProofStructure(mp))
	}
	p1.setName("x1")
	p2.setName("x2")
	pm.setName("mod")
	pr.setName("r")
	vbases := zkproof.NewBaseMerge(&g, &p1, &p2, &pm, &pr)
	vproofs := zkproof.NewProofMerge(&p1, &p2, &pm, &pr)
	var vlist []*big.Int
	vlist = s1.commitmentsFromProof(g, vlist, challenge, p1)
	vlist = s2.commitmentsFromProof(g, vlist, challenge, p2)
	vlist = sm.commitmentsFromProof(g, vlist, challenge, pm)
	vlist = sr.commitmentsFromProof(g, vlist, challenge, pr)
	if add {
		vlist = as.commitmentsFromProof(g, vlist, challenge, &vbases, &vproofs, ap)
	} else {
		vlist = ms.commitmentsFromProof(g, vlist, challenge, &vbases, &vproofs, mp)
	}
	accepted := challenge.Cmp(common.HashCommit(vlist, false)) == 0
	switch {
	case fieldQuotient:
		// (a cut-and-choose round with challenge bit 0 checks nothing: with every bit 0 - probability
		// 2^-rounds, 2^-80 with the real constant - any prover passes)
		allZero := true
		for i := 0; i < rangeProofIters; i++ {
			if challenge.Bit(i) == 1 {
				allZero = false
			}
		}
		vpAssert("an arithmetic proof for a wrong result is rejected", !accepted || allZero)
	case cheat:
		vpAssert("an arithmetic proof for a wrong result is rejected", !accepted)
	case tamper == 0:
		vpAssert("honest arithmetic proof: reconstructed commitments equal the prover's", vpSameList(list, vlist))
		vpAssert("honest arithmetic proof is accepted", accepted)
	default:
		vpAssert("an arithmetic proof with an altered leaf is rejected", !accepted)
	}
}

// C17-O5: the square-free proof (Gennaro-Micciancio-Rabin) run from its real
// code in the algebraic model: N an arbitrary modulus, phi its group order,
// responses c_i^(1/N). Completeness; rejection after altering one response,
// the challenge, the proof index, or the number of responses.
func vpC17_O5() {
	var N, phi *big.Int
	if vpNative() {
		// natively a product of two 96-bit safe primes (N = 5 mod 8, gcd(N, phi) = 1)
		N, phi = vpNativeModulus()
	} else {
		N = vpModulus("sfN", 256)
		phi = vpOrder("sfPhi", N)
	}
	challenge := vpBigBits("challenge", 256)
	index := big.NewInt(int64(vpChoose("index", 4)))
	proof := squareFreeBuildProof(N, phi, challenge, index)
	vpAssert("square-free proof has one response per round", squareFreeVerifyStructure(proof) && len(proof.Responses) == squareFreeIters)
	vchallenge, vindex := challenge, index
	tamper := vpChoose("tamper", 6)
	d := vpBigRange("delta", big.NewInt(1), big.NewInt(1<<30))
	switch tamper {
	case 1:
		i := vpChoose("round", squareFreeIters)
		proof.Responses[i] = vpAddBig(proof.Responses[i], d)
	case 2:
		vchallenge = vpAddBig(challenge, d)
	case 3:
		vindex = vpAddBig(index, big.NewInt(1))
	case 4:
		proof.Responses = proof.Responses[:squareFreeIters-1]
	case 5: // two responses exchanged (each response belongs to its own challenge)
		proof.Responses[0], proof.Responses[1] = proof.Responses[1], proof.Responses[0]
	}
	ok := squareFreeVerifyProof(N, vchallenge, vindex, proof)
	if tamper == 0 {
		vpAssert("honest square-free proof verifies", ok)
	} else {
		vpAssert("an altered square-free proof is rejected", !ok)
	}
}

func init() {
	vpHarnesses["vpC17_O4"] = vpC17_O4
}

// C17-O4: one exponentiation step, the OR-composition of "bit = 0 and post =
// pre" (A) with "bit = 1 and post = pre*mul mod m" (B) by XOR-split challenges;
// the branch that does not hold is simulated. For both branches and arbitrary
// 8-bit values: completeness; rejection when a sub-challenge, a response or a
// commitment of either branch is altered, when the two sub-challenges do not
// XOR to the challenge, and when neither statement holds (bit = 0 with post !=
// pre, bit = 1 with a wrong product, bit = 2, bit = 1 with a product that is
// right only for another multiplier than the publicly committed one).
func vpC17_O4() {
	g := vpGroup()
	const l = 16
	bitv := vpChoose("bit", 3)
	pre, mul := vpBigBits("pre", 8), vpBigBits("mul", 8)
	vpAssume(pre.Sign() >= 0 && mul.Sign() >= 0)
	mod := big.NewInt(251)
	k := vpBigBits("k", 8)
	vpAssume(k.Sign() >= 0)
	var post *big.Int
	if bitv == 0 {
		post = new(big.Int).Set(pre)
	} else {
		post = new(big.Int).Sub(new(big.Int).Mul(pre, mul), new(big.Int).Mul(k, mod))
	}
	cheat := bitv == 2
	// substitute: with bit = 1 the prover runs the step with another multiplier mul' than the one
	// committed to publicly, and a result that fits mul' (not mul)
	substitute := false
	if bitv == 1 && vpBool("substitutedMultiplier") {
		substitute = true
		cheat = true
	} else if bitv != 2 && vpBool("wrongPost") {
		post = vpAddBig(post, vpBigRange("dpost", big.NewInt(1), big.NewInt(250)))
		cheat = true
	}
	mulUsed := mul
	if substitute {
		mulUsed = vpAddBig(mul, vpBigRange("dmul", big.NewInt(1), big.NewInt(200)))
		post = new(big.Int).Sub(new(big.Int).Mul(pre, mulUsed), new(big.Int).Mul(k, mod))
	}
	var list []*big.Int
	list, sb, cb := vpPed(g, list, "bit", big.NewInt(int64(bitv)))
	list, spre, cpre := vpPed(g, list, "pre", pre)
	list, spost, cpost := vpPed(g, list, "post", post)
	list, smul, cmul := vpPed(g, list, "mul", mul)
	list, smod, cmod := vpPed(g, list, "mod", mod)
	bases := zkproof.NewBaseMerge(&g, &cb, &cpre, &cpost, &cmul, &cmod)
	secrets := zkproof.NewSecretMerge(&cb, &cpre, &cpost, &cmul, &cmod)
	if substitute {
		// the prover's private substitute for the public commitment to mul
		_, _, clie := vpPed(g, nil, "mul", mulUsed)
		secrets = zkproof.NewSecretMerge(&cb, &cpre, &cpost, &clie, &cmod)
	}
	es := newExpStepStructure("bit", "pre", "post", "mul", "mod", l)
	list, ec := es.commitmentsFromSecrets(g, list, &bases, &secrets)
	challenge := common.HashCommit(list, false)
	pb, ppre, ppost := sb.buildProof(g, challenge, cb), spre.buildProof(g, challenge, cpre), spost.buildProof(g, challenge, cpost)
	pmul, pmod := smul.buildProof(g, challenge, cmul), smod.buildProof(g, challenge, cmod)
	ep := es.buildProof(g, challenge, ec, &secrets)

	tamper := 0
	if !cheat {
		tamper = vpChoose("tamper", 7)
	}
	d := vpBigRange("delta", big.NewInt(1), new(big.Int).Lsh(big.NewInt(1), 100))
	switch tamper {
	case 1:
		ep.Achallenge = vpAddBig(ep.Achallenge, d)
	case 2:
		ep.Bchallenge = vpAddBig(ep.Bchallenge, d)
	case 3:
		ep.Aproof.Bit.Result = vpAddBig(ep.Aproof.Bit.Result, d)
	case 4:
		ep.Aproof.EqualityHider.Result = vpAddBig(ep.Aproof.EqualityHider.Result, d)
	case 5:
		ep.Bproof.Bit.Result = vpAddBig(ep.Bproof.Bit.Result, d)
	case 6:
		ep.Bproof.Mul.Commit = vpAddBig(ep.Bproof.Mul.Commit, d)
	}
	structureOK := es.verifyProofStructure(challenge, ep)
	if tamper == 1 || tamper == 2 {
		vpAssert("sub-challenges that do not XOR to the challenge fail the structure check", !structureOK)
		return
	}
	vpAssert("exponentiation step structure check passes", structureOK)
	pb.setName("bit")
	ppre.setName("pre")
	ppost.setName("post")
	pmul.setName("mul")
	pmod.setName("mod")
	vbases := zkproof.NewBaseMerge(&g, &pb, &ppre, &ppost, &pmul, &pmod)
	var vlist []*big.Int
	vlist = sb.commitmentsFromProof(g, vlist, challenge, pb)
	vlist = spre.commitmentsFromProof(g, vlist, challenge, ppre)
	vlist = spost.commitmentsFromProof(g, vlist, challenge, ppost)
	vlist = smul.commitmentsFromProof(g, vlist, challenge, pmul)
	vlist = smod.commitmentsFromProof(g, vlist, challenge, pmod)
	vlist = es.commitmentsFromProof(g, vlist, challenge, &vbases, ep)
	accepted := challenge.Cmp(common.HashCommit(vlist, false)) == 0
	switch {
	case cheat:
		vpAssert("an exponentiation step of which neither branch holds is rejected", !accepted)
	case tamper == 0:
		vpAssert("honest exponentiation step: reconstructed commitments equal the prover's", vpSameList(list, vlist))
		vpAssert("honest exponentiation step is accepted", accepted)
	default:
		vpAssert("an exponentiation step with an altered leaf is rejected", !accepted)
	}
}

func init() {
	vpHarnesses["vpC17_O6"] = vpC17_O6
}

// C17-O6: how quasiSafePrimeProductVerifyProof combines its parts. With the four
// sub-verifiers returning arbitrary verdicts (symbolic booleans named after the
// function, modulus and index they are called with), for moduli on both sides
// of each gate - N = 5 (mod 8) or not; a prime factor 3, 31, 1021 (below the
// minimum factor) or 1031 (above it) - the result is exactly: N = 5 (mod 8),
// no factor below 1024, and all four sub-proofs accepted for this N with
// indices 0, 1, 2, 3.
func vpC17_O6() {
	p, _ := new(big.Int).SetString(vpSafeP, 10)
	q, _ := new(big.Int).SetString(vpSafeQ, 10)
	if new(big.Int).Mod(p, big.NewInt(8)).Int64() != 3 {
		p, q = q, p // p = 3, q = 7 (mod 8)
	}
	mul := func(a *big.Int, b int64) *big.Int { return new(big.Int).Mul(a, big.NewInt(b)) }
	type cand struct {
		N    *big.Int
		gate bool
	}
	cands := []cand{
		{new(big.Int).Mul(p, q), true},  // 5 mod 8, large factors
		{new(big.Int).Mul(p, p), false}, // 1 mod 8
		{new(big.Int).Set(p), false},    // 3 mod 8
		{new(big.Int).Set(q), false},    // 7 mod 8
		{mul(q, 3), false},              // 5 mod 8, factor 3
		{mul(p, 31), false},             // 5 mod 8, factor 31
		{mul(new(big.Int).Mul(p, p), 1021), false}, // 5 mod 8, factor 1021 (largest prime below the minimum)
		{mul(p, 1031), true},            // 5 mod 8, factor 1031 (smallest prime above it)
		{mul(new(big.Int).Mul(p, q), 2), false},    // even
	}
	var c cand
	mi := vpChoose("modulus", len(cands))
	c = cands[mi]
	vpAssert("candidate moduli are on the intended side of the first gate", (new(big.Int).Mod(c.N, big.NewInt(8)).Int64() == 5) == (c.gate || (mi >= 4 && mi <= 6)))
	challenge := vpBigBits("challenge", 256)
	var proof QuasiSafePrimeProductProof
	want := c.gate
	verdicts := make([]bool, 4)
	for i, fn := range []string{"squareFreeVerifyProof", "primePowerProductVerifyProof", "disjointPrimeProductVerifyProof", "almostSafePrimeProductVerifyProof"} {
		verdicts[i] = vpBool(fmt.Sprintf("verdict_%s_N%s_idx%d", fn, c.N.String(), i))
		want = want && verdicts[i]
	}
	if vpNative() {
		// natively the four sub-verifiers are replaced, through the hook a source override puts around
		// their calls, by the verdicts of the counterexample: the gates and the conjunction are the real code
		vpForcedVerdicts = verdicts
		defer func() { vpForcedVerdicts = nil }()
	}
	got := quasiSafePrimeProductVerifyProof(c.N, challenge, proof)
	vpAssert("quasi-safe-prime-product verdict is the conjunction of gates and sub-proofs", got == want)
}

// vpForcedVerdicts / vpHookGennaro: see C17-O6. A source override (obligations.json) wraps the four
// sub-verifier calls of quasiSafePrimeProductVerifyProof in this hook; unless verdicts are forced
// (native replay of C17-O6 only) it just runs the call.
var vpForcedVerdicts []bool

func vpHookGennaro(idx int, call func() bool) bool {
	if vpForcedVerdicts != nil {
		return vpForcedVerdicts[idx]
	}
	return call()
}

func init() {
	vpHarnesses["vpC17_O7"] = vpC17_O7
}

// C17-O7: the proof that the public bases are squares modulo N (isSquareProof),
// for the concrete toy key N = 23*47 with the bases 4, 9 (and 541 if the real
// ModSqrt finds it to be a square) - the roots are computed by the real ModSqrt -
// in the symbolic proof group:
// completeness; rejection of an altered leaf (a root or square commitment, a
// response, a leaf of a root-validity multiplication proof or root range proof),
// of a verifier structure made for another modulus or another base list, and of
// a proof with a missing part.
func vpC17_O7() {
	g := vpGroup()
	P, Q := big.NewInt(23), big.NewInt(47)
	N := new(big.Int).Mul(P, Q)
	bases := []*big.Int{big.NewInt(4), big.NewInt(9), big.NewInt(541)}
	// keep only quadratic residues (the real ModSqrt decides); 4 and 9 always are
	var squares []*big.Int
	for _, b := range bases {
		if _, ok := common.ModSqrt(b, []*big.Int{P, Q}); ok {
			squares = append(squares, b)
		}
	}
	ps := newIsSquareProofStructure(N, squares)
	list, commit := ps.commitmentsFromSecrets(g, nil, P, Q)
	challenge := common.HashCommit(list, false)
	proof := ps.buildProof(g, challenge, commit)

	vs := ps
	tamper := vpChoose("tamper", 10)
	d := vpBigRange("delta", big.NewInt(1), new(big.Int).Lsh(big.NewInt(1), 100))
	structureBroken := false
	switch tamper {
	case 1:
		proof.RootsProof[0].Commit = vpAddBig(proof.RootsProof[0].Commit, d)
	case 2:
		proof.SquaresProof[1].Sresult.Result = vpAddBig(proof.SquaresProof[1].Sresult.Result, d)
	case 3:
		proof.NProof.Hresult.Result = vpAddBig(proof.NProof.Hresult.Result, d)
	case 4:
		proof.RootsValidProof[0].Hider.Result = vpAddBig(proof.RootsValidProof[0].Hider.Result, d)
	case 5:
		vpTamperRange(proof.RootsRangeProof[1], ps.rootsRange[1].rangeSecret, vpChoose("round", rangeProofIters), d)
	case 6: // verifier's structure is for another modulus
		vs = newIsSquareProofStructure(vpAddBig(N, big.NewInt(2)), squares)
	case 7: // ... or for another base list (one base replaced)
		other := append([]*big.Int{}, squares...)
		other[0] = vpAddBig(other[0], big.NewInt(1))
		vs = newIsSquareProofStructure(N, other)
	case 8:
		proof.RootsProof = proof.RootsProof[:len(proof.RootsProof)-1]
		structureBroken = true
	case 9:
		proof.RootsValidProof[1].ModMultProof.Commit = nil
		structureBroken = true
	}
	structureOK := vs.verifyProofStructure(proof)
	if structureBroken {
		vpAssert("an is-square proof with a missing part fails the structure check", !structureOK)
		return
	}
	vpAssert("is-square proof structure check passes", structureOK)
	vlist := vs.commitmentsFromProof(g, nil, challenge, proof)
	accepted := challenge.Cmp(common.HashCommit(vlist, false)) == 0
	if tamper == 0 {
		vpAssert("honest is-square proof: reconstructed commitments equal the prover's", vpSameList(list, vlist))
		vpAssert("honest is-square proof is accepted", accepted)
	} else {
		vpAssert("an altered is-square proof is rejected", !accepted)
	}
}

func init() {
	vpHarnesses["vpC17_O8"] = vpC17_O8
}

// C17-O8: a whole exponentiation proof (base^exponent = result modulo a committed
// modulus: bit commitments, base powers with range and multiplication proofs,
// intermediate results, one OR-composed step per bit; commitments computed by the
// proof's worker pool, one worker) for concrete small statements - 3^5 = 1,
// 2^6 = 9, 10^3 = -1 (mod 11) - in the symbolic proof group with symbolic
// randomizers and a fixed challenge. Completeness; rejection of a wrong
// result, of an altered leaf in each part, and of a proof with a missing part.
func vpC17_O8() {
	g := vpGroup()
	const l = 3
	cases := [][4]int64{{3, 5, 11, 1}, {2, 6, 11, 9}, {10, 3, 11, -1}} // (a result of m-1 is committed as -1: the library's convention)
	cs := cases[vpChoose("statement", len(cases))]
	result := cs[3]
	wrong := vpBool("wrongResult")
	if wrong {
		result = (result + 2) % cs[2]
	}
	var list []*big.Int
	list, sb, cb := vpPed(g, list, "base", big.NewInt(cs[0]))
	list, se, ce := vpPed(g, list, "exponent", big.NewInt(cs[1]))
	list, sm, cm := vpPed(g, list, "mod", big.NewInt(cs[2]))
	list, sr, cr := vpPed(g, list, "result", big.NewInt(result))
	bases := zkproof.NewBaseMerge(&g, &cb, &ce, &cm, &cr)
	secrets := zkproof.NewSecretMerge(&cb, &ce, &cm, &cr)
	es := newExpProofStructure("base", "exponent", "mod", "result", l)
	vpAssert("the harness's statement is what it says", es.isTrue(&secrets) == !wrong)
	list, ec := es.commitmentsFromSecrets(g, list, &bases, &secrets)
	// The challenge is a fixed constant (with both bit values among its low bits), not the hash of the
	// list: the eleven cut-and-choose sub-proofs would otherwise fork on every challenge bit. The prover's
	// commitments do not depend on it; acceptance is "the verifier's list is the list the prover hashed".
	challenge := big.NewInt(0x5a6e36)
	pb, pe, pm, pr := sb.buildProof(g, challenge, cb), se.buildProof(g, challenge, ce), sm.buildProof(g, challenge, cm), sr.buildProof(g, challenge, cr)
	ep := es.buildProof(g, challenge, ec, &secrets)

	tamper := 0
	if !wrong {
		tamper = vpChoose("tamper", 9)
	}
	d := vpBigRange("delta", big.NewInt(1), new(big.Int).Lsh(big.NewInt(1), 100))
	structureBroken := false
	switch tamper {
	case 1:
		ep.ExpBitProofs[1].Commit = vpAddBig(ep.ExpBitProofs[1].Commit, d)
	case 2:
		ep.ExpBitEqHider.Result = vpAddBig(ep.ExpBitEqHider.Result, d)
	case 3:
		ep.BasePowProofs[2].Sresult.Result = vpAddBig(ep.BasePowProofs[2].Sresult.Result, d)
	case 4:
		ep.BasePowRelProofs[1].Hider.Result = vpAddBig(ep.BasePowRelProofs[1].Hider.Result, d)
	case 5:
		ep.StartProof.Hresult.Result = vpAddBig(ep.StartProof.Hresult.Result, d)
	case 6:
		ep.InterResProofs[0].Commit = vpAddBig(ep.InterResProofs[0].Commit, d)
	case 7:
		vpTamperRange(ep.InterResRangeProofs[1], es.interResRange[1].rangeSecret, vpChoose("round", rangeProofIters), d)
	case 8:
		ep.InterStepsProofs = ep.InterStepsProofs[:len(ep.InterStepsProofs)-1]
		structureBroken = true
	}
	structureOK := es.verifyProofStructure(challenge, ep)
	if structureBroken {
		vpAssert("an exponentiation proof with a missing part fails the structure check", !structureOK)
		return
	}
	vpAssert("exponentiation proof structure check passes", structureOK)
	pb.setName("base")
	pe.setName("exponent")
	pm.setName("mod")
	pr.setName("result")
	vbases := zkproof.NewBaseMerge(&g, &pb, &pe, &pm, &pr)
	vproofs := zkproof.NewProofMerge(&pb, &pe, &pm, &pr)
	var vlist []*big.Int
	vlist = sb.commitmentsFromProof(g, vlist, challenge, pb)
	vlist = se.commitmentsFromProof(g, vlist, challenge, pe)
	vlist = sm.commitmentsFromProof(g, vlist, challenge, pm)
	vlist = sr.commitmentsFromProof(g, vlist, challenge, pr)
	vlist = es.commitmentsFromProof(g, vlist, challenge, &vbases, &vproofs, ep)
	accepted := vpSameList(list, vlist)
	switch {
	case wrong:
		vpAssert("an exponentiation proof for a wrong result is rejected", !accepted)
	case tamper == 0:
		vpAssert("honest exponentiation proof: reconstructed commitments equal the prover's", vpSameList(list, vlist))
		vpAssert("honest exponentiation proof is accepted", accepted)
	default:
		vpAssert("an exponentiation proof with an altered leaf is rejected", !accepted)
	}
}

func init() {
	vpHarnesses["vpC17_O9"] = vpC17_O9
}

// C17-O9: the structure check of an exponentiation proof looks at every part. A
// complete proof (the library's own simulated proof, for an arbitrary challenge)
// passes; after one alteration of any part at any position - a nil leaf, a
// missing list entry, an oversized range response, or sub-challenges of any step
// that do not XOR to the challenge - the check fails.
func vpC17_O9() {
	g := vpGroup()
	const l = 3
	es := newExpProofStructure("base", "exponent", "mod", "result", l)
	challenge := vpBigBits("challenge", 256)
	proof := es.fakeProof(g, challenge)
	vpAssert("a complete exponentiation proof passes the structure check", es.verifyProofStructure(challenge, proof))
	i := vpChoose("position", l)   // a position among the per-bit parts
	j := vpChoose("position2", l-1) // a position among the intermediate results
	d := vpBigRange("delta", big.NewInt(1), new(big.Int).Lsh(big.NewInt(1), 200))
	switch vpChoose("part", 16) {
	case 0:
		proof.ExpBitEqHider.Result = nil
	case 1:
		proof.ExpBitProofs[i].Commit = nil
	case 2:
		proof.ExpBitProofs = proof.ExpBitProofs[:l-1]
	case 3:
		proof.BasePowProofs[i].Sresult.Result = nil
	case 4:
		proof.BasePowRangeProofs[i].Results[es.basePowRange[i].rangeSecret] = proof.BasePowRangeProofs[i].Results[es.basePowRange[i].rangeSecret][:rangeProofIters-1]
	case 5:
		proof.BasePowRelProofs[i].Hider.Result = nil
	case 6:
		proof.BasePowRelProofs = proof.BasePowRelProofs[:l-1]
	case 7:
		proof.StartProof.Hresult.Result = nil
	case 8:
		proof.InterResProofs[j].Commit = nil
	case 9:
		rs := es.interResRange[j].rangeSecret
		proof.InterResRangeProofs[j].Results[rs][0] = vpAddBig(new(big.Int).Lsh(big.NewInt(1), l+rangeProofEpsilon+2), d)
	case 10:
		proof.InterResProofs = proof.InterResProofs[:l-2]
	case 11:
		proof.InterStepsProofs[i].Achallenge = vpAddBig(proof.InterStepsProofs[i].Achallenge, d)
	case 12:
		proof.InterStepsProofs[i].Bchallenge = nil
	case 13:
		proof.InterStepsProofs[i].Aproof.EqualityHider.Result = nil
	case 14:
		proof.InterStepsProofs[i].Bproof.Mul.Commit = nil
	case 15:
		proof.InterStepsProofs = proof.InterStepsProofs[:l-1]
	}
	vpAssert("an exponentiation proof with an altered part fails the structure check", !es.verifyProofStructure(challenge, proof))
}

func init() {
	vpHarnesses["vpC17_O10"] = vpC17_O10
}

// C17-O10: the structure check of a primality proof looks at every part: the
// library's simulated proof passes for an arbitrary challenge; after one
// alteration (a nil leaf of any Pedersen proof or response, a missing OR
// challenge, OR challenges that do not XOR to the challenge, a damaged range
// proof, a damaged part of either exponentiation proof) the check fails.
func vpC17_O10() {
	g := vpGroup()
	ps := newPrimeProofStructure("pprime", 3)
	challenge := vpBigBits("challenge", 256)
	proof := ps.fakeProof(g, challenge)
	vpAssert("a complete primality proof passes the structure check", ps.verifyProofStructure(challenge, proof))
	d := vpBigRange("delta", big.NewInt(1), new(big.Int).Lsh(big.NewInt(1), 200))
	peds := []*PedersenProof{&proof.HalfPCommit, &proof.PreaCommit, &proof.ACommit, &proof.AnegCommit, &proof.AResCommit, &proof.AnegResCommit}
	leaves := []*Proof{&proof.PreaMod, &proof.PreaHider, &proof.APlus1, &proof.AMin1}
	ranges := []*RangeProof{&proof.PreaRangeProof, &proof.ARangeProof, &proof.AnegRangeProof, &proof.PreaModRangeProof}
	switch vpChoose("part", 10) {
	case 0:
		peds[vpChoose("which", len(peds))].Commit = nil
	case 1:
		peds[vpChoose("which", len(peds))].Hresult.Result = nil
	case 2:
		leaves[vpChoose("which", len(leaves))].Result = nil
	case 3:
		proof.APlus1Challenge = nil
	case 4:
		proof.AMin1Challenge = vpAddBig(proof.AMin1Challenge, d)
	case 5:
		r := ranges[vpChoose("which", len(ranges))]
		for name := range r.Results {
			r.Results[name] = r.Results[name][:rangeProofIters-1]
		}
	case 6:
		ranges[vpChoose("which", len(ranges))].Results = nil
	case 7:
		proof.AExpProof.InterStepsProofs[vpChoose("step", 3)].Bchallenge = nil
	case 8:
		proof.AnegExpProof.ExpBitProofs[vpChoose("step", 3)].Commit = nil
	case 9:
		proof.AnegExpProof.InterStepsProofs[vpChoose("step", 3)].Achallenge = vpAddBig(proof.AnegExpProof.InterStepsProofs[vpChoose("step", 3)].Achallenge, d)
	}
	vpAssert("a primality proof with an altered part fails the structure check", !ps.verifyProofStructure(challenge, proof))
}

func init() {
	vpHarnesses["vpC17_O11"] = vpC17_O11
}

// vpPPPSpec: the specification of one round of the prime-power-product verifier: the square
// of the response is the round's challenge value, its negative, its double or the negative of
// its double, all modulo N.
func vpPPPSpec(N, curc, r *big.Int) bool {
	sq := new(big.Int).Mod(new(big.Int).Mul(r, r), N)
	neg := new(big.Int).Mod(new(big.Int).Neg(curc), N)
	dbl := new(big.Int).Mod(new(big.Int).Lsh(curc, 1), N)
	ndbl := new(big.Int).Mod(new(big.Int).Neg(dbl), N)
	return vpAny(sq.Cmp(curc) == 0, sq.Cmp(neg) == 0, sq.Cmp(dbl) == 0, sq.Cmp(ndbl) == 0)
}

// C17-O11: the prime-power-product verifier (Gennaro et al.) equals its specification
// in exact arithmetic: for the moduli 9, 15, 21, 35, 45, 77, 105, 165 - a prime power,
// products of two and of three primes -, every value the round challenges can take and all responses
// in [0, N), it accepts exactly when every response squares to +-c or +-2c modulo N.
// (Soundness of the proof for bad moduli rests on this relation: a verifier that
// accepts more - say, fourth powers - lets N with three prime factors through.)
// Natively the round challenges are real hash values: the harness looks, over the
// small domain, for responses on which verifier and specification differ.
func vpC17_O11() {
	// (a symbolic modulus leaves the solvers with r*r mod N for two unknowns; the moduli are
	// enumerated instead: a prime power, products of two primes, of three, with a square)
	Nv := []int{9, 15, 21, 35, 45, 77, 105, 165}[vpChoose("pppN", 8)]
	N := big.NewInt(int64(Nv))
	challenge := vpBigBits("challenge", 256)
	index := big.NewInt(int64(vpChoose("index", 4)))
	rs := make([]*big.Int, primePowerProductIters)
	for i := range rs {
		rs[i] = vpBigRange(fmt.Sprintf("resp%d", i), big.NewInt(0), big.NewInt(254))
		vpAssume(rs[i].Cmp(N) < 0)
	}
	curc := func(i int) *big.Int {
		c := common.GetHashNumber(challenge, index, i, uint(N.BitLen()))
		return c.Mod(c, N)
	}
	if vpNative() {
		// realise the counterexample with the real hash: responses on which the two differ
		for i := range rs {
			for r := int64(0); r < int64(Nv); r++ {
				one := PrimePowerProductProof{Responses: make([]*big.Int, primePowerProductIters)}
				for j := range one.Responses {
					one.Responses[j] = rs[j]
				}
				one.Responses[i] = big.NewInt(r)
				// make the other rounds pass where possible so that round i decides
				for j := range one.Responses {
					if j == i {
						continue
					}
					for q := int64(0); q < int64(Nv); q++ {
						if vpPPPSpec(N, curc(j), big.NewInt(q)) {
							one.Responses[j] = big.NewInt(q)
							break
						}
					}
				}
				spec := true
				for j := range one.Responses {
					spec = spec && vpPPPSpec(N, curc(j), one.Responses[j])
				}
				if primePowerProductVerifyProof(N, challenge, index, one) != spec {
					rs = one.Responses
				}
			}
		}
	}
	spec := true
	for i := range rs {
		spec = vpAll(spec, vpPPPSpec(N, curc(i), rs[i]))
	}
	accepted := primePowerProductVerifyProof(N, challenge, index, PrimePowerProductProof{Responses: rs})
	vpAssert("the prime-power-product verifier accepts exactly the responses whose squares are +-c or +-2c", accepted == spec)
}

func init() {
	vpHarnesses["vpC17_O12"] = vpC17_O12
}

// C17-O12: degenerate commitments in the core of the key proof. A prover who knows no
// factorisation of N sends, as the commitments to p and q, multiples of the group prime
// (0 or P itself): every representation that has such a commitment on its left side, or
// as a base with a non-zero response, evaluates to 0 modulo P whatever the responses are,
// so the relations p = 2p'+1, q = 2q'+1 and N = pq say nothing, and the prover can hash
// the zeros beforehand. The structure N is arbitrary (no relation to the committed
// p', q'). The core, composed as VerifyProof composes it - including the checks VerifyProof
// makes on the reconstructed list - must reject.
func vpC17_O12() {
	g := vpGroup()
	pprime, qprime := vpBigBits("pprime", 64), vpBigBits("qprime", 64)
	vpAssume(pprime.Sign() > 0 && qprime.Sign() > 0)
	N := vpBigBits("badN", 120)
	vpAssume(N.Sign() > 0)
	s := NewValidKeyProofStructure(N, []*big.Int{big.NewInt(4)})
	zero := big.NewInt(0)
	if vpBool("groupPrimeItself") {
		zero = new(big.Int).Set(g.P)
	}
	o := big.NewInt(0)
	// prover: honest commitments to p', q'; zeros where the degenerate commitments make the verifier compute zeros
	list, PprimeSecret := s.pprime.commitmentsFromSecrets(g, nil, pprime)
	list, QprimeSecret := s.qprime.commitmentsFromSecrets(g, list, qprime)
	list = append(list, zero, o, zero, o, g.P, s.n, o, o, o)
	challenge := common.HashCommit(list, false)
	vpAssume(challenge.Sign() != 0)
	pPp, pQp := s.pprime.buildProof(g, challenge, PprimeSecret), s.qprime.buildProof(g, challenge, QprimeSecret)
	// (the responses can be anything that is not zero; one arbitrary value for all of them)
	r1 := vpBigBits("r1", 200)
	vpAssume(r1.Sign() > 0)
	r2, r3, r4, r5 := r1, r1, r1, r1
	pP := PedersenProof{Commit: zero, Sresult: Proof{Result: r1}, Hresult: Proof{Result: r2}}
	pQ := PedersenProof{Commit: zero, Sresult: Proof{Result: r3}, Hresult: Proof{Result: r4}}
	proofPQN := Proof{Result: r5}

	// verifier (as in VerifyProof)
	structureOK := s.p.verifyProofStructure(pP) && s.q.verifyProofStructure(pQ) && s.pprime.verifyProofStructure(pPp) && s.qprime.verifyProofStructure(pQp) && proofPQN.verifyStructure()
	pP.setName("p")
	pQ.setName("q")
	pPp.setName("pprime")
	pQp.setName("qprime")
	proofPQN.setName("pqnrel")
	vbases := zkproof.NewBaseMerge(&g, &pP, &pQ, &pPp, &pQp)
	vproofs := zkproof.NewProofMerge(&pP, &pQ, &pPp, &pQp, &proofPQN)
	var vlist []*big.Int
	vlist = s.pprime.commitmentsFromProof(g, vlist, challenge, pPp)
	vlist = s.qprime.commitmentsFromProof(g, vlist, challenge, pQp)
	vlist = s.p.commitmentsFromProof(g, vlist, challenge, pP)
	vlist = s.q.commitmentsFromProof(g, vlist, challenge, pQ)
	vlist = append(vlist, g.P)
	vlist = append(vlist, s.n)
	vlist = s.pPprimeRel.CommitmentsFromProof(g, vlist, challenge, &vbases, &vproofs)
	vlist = s.qQprimeRel.CommitmentsFromProof(g, vlist, challenge, &vbases, &vproofs)
	vlist = s.pQNRel.CommitmentsFromProof(g, vlist, challenge, &vbases, &vproofs)
	accepted := structureOK && vpCommitmentsAcceptable(g, vlist) && challenge.Cmp(common.HashCommit(vlist, false)) == 0
	vpAssert("a core proof with degenerate commitments to p and q is rejected", !accepted)
}

// vpCommitmentsAcceptable: the check VerifyProof makes on the reconstructed commitment list.
func vpCommitmentsAcceptable(g zkproof.Group, list []*big.Int) bool { return !hasVanishingCommitment(list) }
