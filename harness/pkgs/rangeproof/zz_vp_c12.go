package rangeproof

import (
	"github.com/privacybydesign/gabi/big"
	"github.com/privacybydesign/gabi/gabikeys"
)

func init() {
	vpHarnesses["vpC12_O1"] = vpC12_O1
}

// vpHolds is the integer semantics of a reported statement.
func vpHolds(typ StatementType, factor uint, bound, m *big.Int) bool {
	fm := new(big.Int).Mul(new(big.Int).SetUint64(uint64(factor)), m)
	if typ == GreaterOrEqual {
		return fm.Cmp(bound) >= 0
	}
	return fm.Cmp(bound) <= 0
}

// C12-O1: for every proof descriptor (Sign, A, K, Ld, number of squares) the
// real ExtractStructure accepts, the relation the verifier will check
// (read from the real ProofStructure) implies the statement the library
// reports, and every statement ProvesStatement answers true for, for every
// attribute value m >= 0 and every sum of squares D >= 0.
func vpC12_O1() {
	keylen := 1024 + 1024*vpChoose("keylen", 2)
	pk := &gabikeys.PublicKey{Params: gabikeys.DefaultSystemParameters[keylen]}
	n := 3 + vpChoose("nCs", 2)
	p := &Proof{Sign: vpInt("sign"), A: vpUint("a"), K: vpBig("K"), Ld: vpUint("ld"), Cs: make([]*big.Int, n)}
	s, err := p.ExtractStructure(1, pk)
	if err != nil {
		return
	}
	m := vpBig("m")
	D := vpBig("D")
	vpAssume(m.Sign() >= 0 && D.Sign() >= 0)
	// relation proven by mCorrect:  prod_rhs base^(power*secret) = prod_lhs base^power,
	// with C_i = R^d_i S^v_i; exponent of R:  D + rhsPow*m = lhsPow
	lhsPow := s.mCorrect.Lhs[0].Power
	rhsPow := big.NewInt(s.mCorrect.Rhs[1].Power)
	rel := new(big.Int).Add(D, new(big.Int).Mul(rhsPow, m))
	vpAssume(rel.Cmp(lhsPow) == 0)

	typ, factor, bound := p.ProvenStatement()
	vpAssert("proven statement holds", vpHolds(typ, factor, bound, m))

	qsign, qfactor, qbound := vpInt("qsign"), vpUint("qfactor"), vpBig("qbound")
	if p.ProvesStatement(qsign, qfactor, qbound) {
		qt := GreaterOrEqual
		if qsign == -1 {
			qt = LesserOrEqual
		}
		vpAssert("implied statement holds", vpHolds(qt, qfactor, qbound, m))
	}
}
