package gabikeys

import (
	"crypto/rand"
	"errors"
	"io"
	"runtime"
	"sync"
	"time"

	"github.com/privacybydesign/gabi/big"
	"github.com/privacybydesign/gabi/safeprime"
)

func init() {
	vpHarnesses["vpC16_O1"] = vpC16_O1
	vpHarnesses["vpC16_O2"] = vpC16_O2
	vpHarnesses["vpC16_O3"] = vpC16_O3
	vpHarnesses["vpC16_O4"] = vpC16_O4
	vpHarnesses["vpC16_O5"] = vpC16_O5
	vpHarnesses["vpC16_O6"] = vpC16_O6
}

func vpToyParams(ln uint) *SystemParameters {
	base := BaseParameters{LePrime: 12, Lh: 16, Lm: 16, Ln: ln, Lstatzk: 8}
	return &SystemParameters{base, MakeDerivedParameters(base)}
}

func vpMod8(x *big.Int) int64 { return new(big.Int).Mod(x, big.NewInt(8)).Int64() }

// C16-O1: whatever safe primes the generator workers deliver (any sequence of
// up to 4 candidates of the right size), a pair returned by
// generateSafePrimePair consists of two different safe primes whose product
// has exactly Ln bits, with p != q (mod 8) and neither (p-1)/2 nor (q-1)/2
// congruent to 1 modulo 8 - i.e. a key-correctness proof can be made.
func vpC16_O1() {
	ln := uint(vpParam("ln", 64))
	p, q, err := generateSafePrimePair(vpToyParams(ln))
	vpAssert("pair generation succeeds", err == nil && p != nil && q != nil)
	if err != nil {
		return
	}
	vpAssert("primes are distinct", p.Cmp(q) != 0)
	vpAssert("modulus has exactly the requested length", uint(new(big.Int).Mul(p, q).BitLen()) == ln)
	pp, qp := new(big.Int).Rsh(p, 1), new(big.Int).Rsh(q, 1)
	vpAssert("p and q are safe primes", vpIsPrime(p) && vpIsPrime(q) && vpIsPrime(pp) && vpIsPrime(qp))
	vpAssert("p and q differ modulo 8", vpMod8(p) != vpMod8(q))
	vpAssert("neither (p-1)/2 nor (q-1)/2 is 1 modulo 8", vpMod8(pp) != 1 && vpMod8(qp) != 1)
	// the remaining conditions of keyproof.CanProve
	vpAssert("key proof preconditions hold", vpMod8(p) != 1 && vpMod8(q) != 1 && vpMod8(pp) != vpMod8(qp))
}

// C16-O2: GenerateKeyPair assembles a consistent key from such a pair:
// N = p*q, p' = (p-1)/2, order = p'q', the requested number of bases, derived
// parameters, and a matching revocation key pair.
func vpC16_O2() {
	ln := uint(vpParam("ln", 64))
	nattr := 1 + vpChoose("nattr", 3)
	param := vpToyParams(ln)
	sk, pk, err := GenerateKeyPair(param, nattr, 7, time.Unix(1900000000, 0))
	vpAssert("key generation succeeds", err == nil && sk != nil && pk != nil)
	if err != nil {
		return
	}
	vpAssert("modulus is the product of the primes", sk.N.Cmp(new(big.Int).Mul(sk.P, sk.Q)) == 0 && pk.N.Cmp(sk.N) == 0)
	vpAssert("p' and q' are the halves", sk.PPrime.Cmp(new(big.Int).Rsh(sk.P, 1)) == 0 && sk.QPrime.Cmp(new(big.Int).Rsh(sk.Q, 1)) == 0)
	vpAssert("order is p'q'", sk.Order.Cmp(new(big.Int).Mul(sk.PPrime, sk.QPrime)) == 0)
	vpAssert("requested number of bases", len(pk.R) == nattr)
	vpAssert("all public elements present", pk.Z != nil && pk.S != nil && pk.G != nil && pk.H != nil && pk.ECDSA != nil && sk.ECDSA != nil)
	vpAssert("counters and parameters carried over", pk.Counter == 7 && sk.Counter == 7 && pk.Params == param && pk.RevocationSupported() && sk.RevocationSupported())
	vpAssert("modulus has exactly the requested length", uint(pk.N.BitLen()) == ln)
	for _, r := range pk.R {
		vpAssert("bases are reduced", r != nil && r.Sign() > 0 && r.Cmp(pk.N) < 0)
	}
}

// C16-O3: two key generations run concurrently (each with its own stream of
// candidate safe primes). Under every schedule (bounded preemptions) there is
// no data race between them and both return a pair that meets the conditions
// of C16-O1: concurrent generations share no working state.
func vpC16_O3() {
	ln := uint(vpParam("ln", 64))
	param := vpToyParams(ln)
	var ps, qs [2]*big.Int
	var errs [2]error
	var wg sync.WaitGroup
	wg.Add(2)
	for t := 0; t < 2; t++ {
		t := t
		go func() {
			defer wg.Done()
			ps[t], qs[t], errs[t] = generateSafePrimePair(param)
		}()
	}
	wg.Wait()
	for t := 0; t < 2; t++ {
		p, q := ps[t], qs[t]
		vpAssert("concurrent pair generation succeeds", errs[t] == nil && p != nil && q != nil)
		if errs[t] != nil {
			return
		}
		pp, qp := new(big.Int).Rsh(p, 1), new(big.Int).Rsh(q, 1)
		vpAssert("concurrently generated modulus has exactly the requested length", uint(new(big.Int).Mul(p, q).BitLen()) == ln)
		vpAssert("concurrently generated p and q differ modulo 8", vpMod8(p) != vpMod8(q))
		vpAssert("concurrently generated: neither (p-1)/2 nor (q-1)/2 is 1 modulo 8", vpMod8(pp) != 1 && vpMod8(qp) != 1)
	}
}

// C16-O4: the worker pool of safeprime.GenerateConcurrent (its real code; the
// single-prime generator is a stub, two workers). The consumer takes 1..3
// safe primes and then closes the stop channel, as generateSafePrimePair does.
// Under every schedule (bounded preemptions) nothing panics and every goroutine
// the pool started returns: no worker is left behind.
func vpC16_O4() { vpC16WorkerPool() }

type vpFailingReader struct{}

func (vpFailingReader) Read([]byte) (int, error) { return 0, errors.New("entropy source failed") }

// C16-O5: the same worker pool when the randomness source fails (symbolically:
// any of the single-prime generations may return an error; natively: crypto/rand.Reader
// fails). The failure is reported on the error channel, nothing panics and
// every goroutine of the pool returns.
func vpC16_O5() {
	if vpNative() {
		var old io.Reader
		old, rand.Reader = rand.Reader, vpFailingReader{}
		defer func() { rand.Reader = old }()
	}
	vpC16WorkerPool()
}

// C16-O6: the same worker pool on a single processor (GOMAXPROCS = 1): generation still
// makes progress and stops cleanly - no deadlock.
func vpC16_O6() {
	if vpNative() {
		old := runtime.GOMAXPROCS(1)
		defer runtime.GOMAXPROCS(old)
	}
	vpC16WorkerPool()
}

func vpC16WorkerPool() {
	if vpNative() {
		// natively a pool that makes no progress would block the replay for good: watchdog
		done := make(chan struct{})
		go func() {
			defer close(done)
			vpC16WorkerPoolBody()
		}()
		select {
		case <-done:
		case <-time.After(20 * time.Second):
			panic("DEADLOCK: the worker pool made no progress within 20 s")
		}
		return
	}
	vpC16WorkerPoolBody()
}

func vpC16WorkerPoolBody() {
	base := vpGoroutines()
	stop := make(chan struct{})
	ints, errs := safeprime.GenerateConcurrent(32, stop)
	k := 1 + vpChoose("consumed", 3)
	failed := false
	for i := 0; i < k && !failed; i++ {
		select {
		case p := <-ints:
			vpAssert("the pool delivers safe primes", p != nil && p.BitLen() == 32)
		case err := <-errs:
			vpAssert("a reported failure carries an error", err != nil)
			failed = true
		}
	}
	vpSleepNative(30) // natively: give the workers time to fill the channel, as a slow consumer would
	close(stop)
	left := vpQuiesce(base)
	vpAssert("no safe-prime worker is left behind after stop", left == 0)
}
