package gabikeys

import (
	"encoding/base64"
	"os"
	"strconv"
	"path/filepath"
	"syscall"

	"github.com/privacybydesign/gabi/big"
	"github.com/privacybydesign/gabi/signed"
)

func init() {
	vpHarnesses["vpC18_O1"] = vpC18_O1
	vpHarnesses["vpC18_O2"] = vpC18_O2
}

// ---- file system access of the harness; the symbolic executor replaces these by its POSIX model ----

var vpOldUmask = -1

// With link set, the path is a symbolic link to the existing file.
func vpxFsSetup(name string, exists bool, mode int, umask int, link bool) string {
	dir, err := os.MkdirTemp("", "vpc18")
	if err != nil {
		panic(err)
	}
	path := filepath.Join(dir, name)
	if exists {
		file := path
		if link {
			file = filepath.Join(dir, "target-of-"+name)
			if err := os.Symlink(file, path); err != nil {
				panic(err)
			}
		}
		if err := os.WriteFile(file, []byte("old content"), 0600); err != nil {
			panic(err)
		}
		if err := os.Chmod(file, os.FileMode(mode)); err != nil {
			panic(err)
		}
	}
	vpOldUmask = syscall.Umask(umask)
	return path
}

func vpxFsDone(path string) {
	if vpOldUmask >= 0 {
		syscall.Umask(vpOldUmask)
	}
	os.RemoveAll(filepath.Dir(path))
}

func vpxFsMode(path string) int {
	st, err := os.Stat(path)
	if err != nil {
		return 0
	}
	return int(st.Mode().Perm())
}

func vpxFsExists(path string) bool {
	_, err := os.Stat(path)
	return err == nil
}

// vpxFsHasData: the file holds freshly written key material
func vpxFsHasData(path string) bool {
	b, err := os.ReadFile(path)
	return err == nil && len(b) > 0 && string(b) != "old content"
}

func vpSmallPrivateKey() *PrivateKey {
	return &PrivateKey{P: big.NewInt(23), Q: big.NewInt(47), PPrime: big.NewInt(11), QPrime: big.NewInt(23)}
}

// C18-O1: PrivateKey.WriteToFile for every prior state of the target (absent,
// present with any permission bits, or a symbolic link to such a file), every umask and both values of the
// overwrite flag: a file that holds the key after the call is not accessible
// to group or others; without the flag an existing file is left alone.
func vpC18_O1() {
	exists := vpBool("exists")
	mode := vpIntRange("mode", 0, 0777)
	umask := vpIntRange("umask", 0, 0777)
	force := vpBool("force")
	link := vpBool("symlink") // the existing target is reached through a symbolic link
	path := vpxFsSetup("sk.xml", exists, mode, umask, link)
	_, err := vpSmallPrivateKey().WriteToFile(path, force)
	hasKey, after := vpxFsHasData(path), vpxFsMode(path)
	vpxFsDone(path)
	if hasKey {
		vpAssert("a file holding the private key is not accessible to group or others", after&0o077 == 0)
	}
	if exists && !force {
		vpAssert("without the overwrite flag an existing file is refused", err != nil && !hasKey && after == mode)
	}
	if !exists {
		vpAssert("a fresh private key file is written", err == nil && hasKey)
	}
}

// C18-O2: key material read from XML is validated. The XML decoder is not
// encodable (reflection); what is checked is everything after it, on a key
// struct with arbitrary field values: PrivateKey.Validate accepts exactly the
// consistent safe-prime keys.
func vpC18_O2() {
	p, q := vpBigBits("p", 40), vpBigBits("q", 40)
	pp, qp := vpBigBits("pprime", 40), vpBigBits("qprime", 40)
	sk := &PrivateKey{P: p, Q: q, PPrime: pp, QPrime: qp}
	err := sk.Validate()
	half := func(x *big.Int) *big.Int { return new(big.Int).Rsh(new(big.Int).Sub(x, big.NewInt(1)), 1) }
	consistent := half(p).Cmp(pp) == 0 && half(q).Cmp(qp) == 0
	safeP := p.Cmp(big.NewInt(2)) > 0 && vpIsPrime(p) && vpIsPrime(new(big.Int).Rsh(p, 1))
	safeQ := q.Cmp(big.NewInt(2)) > 0 && vpIsPrime(q) && vpIsPrime(new(big.Int).Rsh(q, 1))
	vpAssert("Validate accepts exactly consistent safe-prime keys", (err == nil) == vpAll(consistent, safeP, safeQ))
}

func init() {
	vpHarnesses["vpC18_O3"] = vpC18_O3
	vpHarnesses["vpC18_O2b"] = vpC18_O2b
}

// C18-O2b: the same statement as O2 by case split over concrete small candidates (so that
// primality is decided, not uninterpreted, and a counterexample replays natively): p and q
// range over safe primes, primes with composite half, composites with prime half and
// composites with composite half; p' and q' are the halves or off by one.
func vpC18_O2b() {
	cands := []int64{7, 11, 23, 47, 13, 37, 15, 35, 9, 21, 5, 3}
	p, q := cands[vpChoose("pc", len(cands))], cands[vpChoose("qc", len(cands))]
	pp, qp := (p-1)/2+int64(vpChoose("ppOff", 2)), (q-1)/2+int64(vpChoose("qpOff", 2))
	sk := &PrivateKey{P: big.NewInt(p), Q: big.NewInt(q), PPrime: big.NewInt(pp), QPrime: big.NewInt(qp)}
	err := sk.Validate()
	safe := func(x int64) bool { return x > 2 && big.NewInt(x).ProbablyPrime(20) && big.NewInt((x-1)/2).ProbablyPrime(20) }
	consistent := pp == (p-1)/2 && qp == (q-1)/2
	vpAssert("Validate accepts exactly consistent safe-prime keys (concrete candidates)", (err == nil) == (consistent && safe(p) && safe(q)))
}

// vpxKeyXML builds a public key document whose modulus has exactly nbits bits
// (no <n> element at all when nbits is 0).
func vpxKeyXML(nbits int) string {
	n := ""
	if nbits > 0 {
		v := new(big.Int).Lsh(big.NewInt(1), uint(nbits-1))
		v.Add(v, big.NewInt(12345))
		n = "<n>" + v.String() + "</n>"
	}
	return XMLHeader + `<IssuerPublicKey xmlns="http://www.zurich.ibm.com/security/idemix"><Counter>0</Counter><ExpiryDate>1700000000</ExpiryDate><Elements>` +
		n + `<Z>5</Z><S>7</S><Bases num="2"><Base_0>3</Base_0><Base_1>9</Base_1></Bases></Elements><Features><Epoch length="432000"></Epoch></Features></IssuerPublicKey>`
}

func vpxWriteTemp(content string) string {
	f, err := os.CreateTemp("", "vpc18key")
	if err != nil {
		panic(err)
	}
	f.WriteString(content)
	f.Close()
	return f.Name()
}

// C18-O3: reading a public key whose modulus length is unsupported (or which
// has no modulus at all) is refused with an error - by NewPublicKeyFromBytes
// and by NewPublicKeyFromFile - and an accepted key has system parameters.
func vpC18_O3() {
	// (every supported length with its neighbours and the neighbouring whole-byte lengths)
	lengths := []int{0, 1, 512, 1000, 1016, 1017, 1023, 1024, 1025, 1031, 1032, 2040, 2041, 2047, 2048, 2049, 2055, 2056, 4088, 4089, 4095, 4096, 4097, 4103, 4104}
	nbits := lengths[vpChoose("nbits", len(lengths))]
	supported := nbits == 1024 || nbits == 2048 || nbits == 4096
	doc := vpxKeyXML(nbits)
	pk1, err1 := NewPublicKeyFromBytes([]byte(doc))
	vpAssert("NewPublicKeyFromBytes accepts exactly the supported modulus lengths", (err1 == nil) == supported)
	if err1 == nil {
		vpAssert("a key accepted by NewPublicKeyFromBytes has parameters", pk1 != nil && pk1.Params != nil)
	}
	path := vpxWriteTemp(doc)
	pk2, err2 := NewPublicKeyFromFile(path)
	vpAssert("NewPublicKeyFromFile accepts exactly the supported modulus lengths", (err2 == nil) == supported)
	if err2 == nil {
		vpAssert("a key accepted by NewPublicKeyFromFile has parameters", pk2 != nil && pk2.Params != nil)
	}
}

func init() {
	vpHarnesses["vpC18_O5"] = vpC18_O5
}

// vpxFlawedKeyXML: a public key document with a 1024-bit modulus and one flaw: 0 none,
// 1 no <Z>, 2 no <S>, 3 no <Bases>, 4 a negative base, 5 a negative Z.
func vpxFlawedKeyXML(nbits, flaw int) string {
	v := new(big.Int).Lsh(big.NewInt(1), uint(nbits-1))
	v.Add(v, big.NewInt(12345))
	z, s, bases := "<Z>5</Z>", "<S>7</S>", `<Bases num="2"><Base_0>3</Base_0><Base_1>9</Base_1></Bases>`
	switch flaw {
	case 1:
		z = ""
	case 2:
		s = ""
	case 3:
		bases = ""
	case 4:
		bases = `<Bases num="2"><Base_0>3</Base_0><Base_1>-9</Base_1></Bases>`
	case 5:
		z = "<Z>-5</Z>"
	case 6: // no flaw: twelve bases 3, 4, ..., 14
		bases = `<Bases num="12">`
		for k := 0; k < 12; k++ {
			bases += "<Base_" + strconv.Itoa(k) + ">" + strconv.Itoa(3+k) + "</Base_" + strconv.Itoa(k) + ">"
		}
		bases += "</Bases>"
	}
	return XMLHeader + `<IssuerPublicKey xmlns="http://www.zurich.ibm.com/security/idemix"><Counter>0</Counter><ExpiryDate>1700000000</ExpiryDate><Elements>` +
		"<n>" + v.String() + "</n>" + z + s + bases + `</Elements><Features><Epoch length="432000"></Epoch></Features></IssuerPublicKey>`
}

// vpxPrivKeyXML: a private key document with the toy safe primes 23 and 47, minus one
// element: 0 none, 1 <p>, 2 <q>, 3 <pPrime>, 4 <qPrime>.
func vpxPrivKeyXML(missing int) string {
	els := []string{"<p>23</p>", "<q>47</q>", "<pPrime>11</pPrime>", "<qPrime>23</qPrime>"}
	body := ""
	for i, e := range els {
		if i+1 != missing {
			body += e
		}
	}
	// 5: with the revocation signing key of a freshly generated pair, 6: with a garbled one
	if missing == 5 {
		k, err := signed.GenerateKey()
		if err != nil {
			panic(err)
		}
		bts, err := signed.MarshalPrivateKey(k)
		if err != nil {
			panic(err)
		}
		body += "<ECDSA>" + base64.StdEncoding.EncodeToString(bts) + "</ECDSA>"
	}
	if missing == 6 {
		body += "<ECDSA>!!garbage</ECDSA>"
	}
	return XMLHeader + `<IssuerPrivateKey xmlns="http://www.zurich.ibm.com/security/idemix"><Counter>0</Counter><ExpiryDate>1700000000</ExpiryDate><Elements>` + body + `</Elements></IssuerPrivateKey>`
}

// C18-O5: malformed key documents are refused with an error. A public key document
// that lacks <Z>, <S> or the base list, or carries a negative number, is not
// accepted; a private key document that lacks one of its four primes is refused -
// in demo mode and outside it - and never makes the reader panic; the complete
// documents are read.
func vpC18_O5() {
	if vpBool("privateKey") {
		missing := vpChoose("missing", 7)
		demo := vpBool("demo")
		sk, err := NewPrivateKeyFromXML(vpxPrivKeyXML(missing), demo)
		if missing == 5 {
			// derived fields: a key with revocation support has its signing key after reading, in demo mode too
			vpAssert("a private key document with a revocation key is read with its signing key", err == nil && sk != nil && sk.RevocationSupported() && sk.ECDSA != nil)
		} else if missing == 6 {
			vpAssert("a private key document with a garbled revocation key is refused", err != nil && sk == nil)
		} else if missing == 0 {
			vpAssert("a complete private key document is read", err == nil && sk != nil && sk.N != nil && sk.N.Cmp(big.NewInt(23*47)) == 0)
		} else {
			vpAssert("a private key document with a missing prime is refused", err != nil && sk == nil)
		}
		return
	}
	flaw := vpChoose("flaw", 7)
	pk, err := NewPublicKeyFromBytes([]byte(vpxFlawedKeyXML(1024, flaw)))
	if flaw == 6 {
		vpAssert("a public key document with twelve bases is read", err == nil && pk != nil && len(pk.R) == 12)
		if err == nil && len(pk.R) == 12 {
			inOrder := true
			for k := 0; k < 12; k++ {
				inOrder = inOrder && pk.R[k].Cmp(big.NewInt(int64(3+k))) == 0
			}
			vpAssert("the bases of a key document are read in the order in which they were written", inOrder)
		}
		return
	}
	if flaw == 0 {
		vpAssert("a complete public key document is read", err == nil && pk != nil && pk.Z != nil && pk.S != nil && len(pk.R) == 2)
	} else {
		vpAssert("a public key document with a missing element or a negative number is refused", err != nil && pk == nil)
	}
}
