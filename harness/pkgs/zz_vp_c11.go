package gabi

import (
	"encoding/json"
	"github.com/privacybydesign/gabi/big"
	"github.com/privacybydesign/gabi/gabikeys"
	"github.com/privacybydesign/gabi/rangeproof"
	"github.com/privacybydesign/gabi/revocation"
)

func init() {
	vpHarnesses["vpC11_O3"] = vpC11_O3
	vpHarnesses["vpC11_O1"] = vpC11_O1
	vpHarnesses["vpC11_O2"] = vpC11_O2
}

type vpRevSetup struct {
	pk   *gabikeys.PublicKey
	sk   *gabikeys.PrivateKey
	upd  *revocation.Update
	acc  *revocation.Accumulator
	cred *Credential
}

// vpRevocableCredential issues (with the real code) a credential with attributes
// (secret, a1, e) and a valid witness for e against a fresh accumulator.
func vpRevocableCredential(keyIdx int, prefix string) *vpRevSetup {
	s := &vpRevSetup{}
	s.pk, s.sk = vpKeys(keyIdx, 4, 1024, true)
	var err error
	s.upd, err = revocation.NewAccumulator(s.sk)
	vpAssume(err == nil)
	s.acc, err = s.upd.SignedAccumulator.UnmarshalVerify(s.pk)
	vpAssume(err == nil)
	w, err := revocation.RandomWitness(s.sk, s.acc)
	vpAssume(err == nil)
	w.SignedAccumulator = s.upd.SignedAccumulator
	attrs := []*big.Int{vpBigBits(prefix+"secret", 255), vpBigBits(prefix+"a1", 256), w.E}
	// the witness value is a fresh random prime: it does not coincide with another attribute
	vpAssume(attrs[0].Cmp(w.E) != 0 && attrs[1].Cmp(w.E) != 0)
	sig, err := SignMessageBlock(s.sk, s.pk, attrs)
	vpAssume(err == nil)
	s.cred = &Credential{Signature: sig, Pk: s.pk, Attributes: attrs, NonRevocationWitness: w}
	return s
}

// vpProveWith builds a proof whose secret-key randomizer is chosen by the harness
// (all other randomness is the library's).
func vpProveWith(cred *Credential, disclosed []int, nonrev bool, ctx, nonce, skRandomizer *big.Int) (*ProofD, error) {
	b, err := cred.CreateDisclosureProofBuilder(disclosed, nil, nonrev)
	if err != nil {
		return nil, err
	}
	// the randomizer of the ordinary hidden attribute 1 is chosen by the harness as well
	// (it is a uniform LmCommit-bit value in the library)
	if _, hidden := b.attrRandomizers[1]; hidden {
		b.attrRandomizers[1] = vpBigBits("r1", int(cred.Pk.Params.LmCommit))
	}
	bl := ProofBuilderList{b}
	c, err := bl.ChallengeWithRandomizers(ctx, nonce, map[string]*big.Int{"secretkey": skRandomizer}, false)
	if err != nil {
		return nil, err
	}
	pl, err := bl.BuildDistributedProofList(c, nil)
	if err != nil {
		return nil, err
	}
	return pl[0].(*ProofD), nil
}

// vpVerifyRobust verifies; natively it repeats the verification so that every
// iteration order of the proof's maps is exercised with overwhelming probability.
func vpVerifyRobust(p *ProofD, pk *gabikeys.PublicKey, ctx, nonce *big.Int) bool {
	reps := 1
	if vpNative() {
		reps = 32
	}
	ok := true
	for i := 0; i < reps; i++ {
		ok = p.Verify(pk, ctx, nonce, false) && ok
	}
	return ok
}

// C11-O1: an honest disclosure proof with a non-revocation part (fresh or
// cached commitment, attribute 1 disclosed or not, any secret-key randomizer
// the protocol allows, any iteration order of the response map) verifies and
// the verifier reads the accumulator the proof was made against.
func vpC11_O1() {
	s := vpRevocableCredential(0, "")
	if vpBool("prepareCache") {
		vpAssert("cache prepared", s.cred.NonrevPrepareCache() == nil)
	}
	var disclosed []int
	if vpBool("disc1") {
		disclosed = []int{1}
	}
	ctx, nonce := vpBigBits("ctx", 256), vpBigBits("nonce", 80)
	r0 := vpBigBits("r0", int(gabikeys.DefaultSystemParameters[1024].LmCommit))
	proof, err := vpProveWith(s.cred, disclosed, true, ctx, nonce, r0)
	vpAssert("honest non-revocation proof is created", err == nil && proof != nil && proof.NonRevocationProof != nil)
	if err != nil {
		return
	}
	vpShuffle(proof.AResponses)
	vpAssert("honest non-revocation proof verifies", vpVerifyRobust(proof, s.pk, ctx, nonce))
	acc := proof.NonRevocationProof.SignedAccumulator.Accumulator
	vpAssert("verifier reads the accumulator the proof was made against", acc != nil && acc.Index == s.acc.Index && acc.Nu.Cmp(s.acc.Nu) == 0)
}

// C11-O2: non-revocation parts that are not backed by a valid witness of this
// credential are refused: an invalid witness value, a witness for another
// value, altered commitments/responses, a transplanted non-revocation part.
func vpC11_O2() {
	s := vpRevocableCredential(0, "")
	ctx, nonce := vpBigBits("ctx", 256), vpBigBits("nonce", 80)
	r0 := vpBigRange("r0", new(big.Int).Lsh(big.NewInt(1), 581), new(big.Int).Lsh(big.NewInt(1), 591))
	d := vpBig("d")
	vpAssume(d.Sign() > 0)
	dev := vpChoose("deviation", 8)
	switch dev {
	case 0: // witness value that does not satisfy u^e = nu
		t := new(big.Int).Exp(s.pk.S, d, s.pk.N)
		s.cred.NonRevocationWitness.U = t.Mul(t, s.cred.NonRevocationWitness.U).Mod(t, s.pk.N)
	case 1: // witness for a value that is not an attribute of this credential
		w2, err := revocation.RandomWitness(s.sk, s.acc)
		vpAssume(err == nil && w2.E.Cmp(s.cred.NonRevocationWitness.E) != 0)
		vpAssume(w2.E.Cmp(s.cred.Attributes[0]) != 0 && w2.E.Cmp(s.cred.Attributes[1]) != 0)
		w2.SignedAccumulator = s.upd.SignedAccumulator
		s.cred.NonRevocationWitness = w2
	}
	proof, err := vpProveWith(s.cred, nil, true, ctx, nonce, r0)
	if dev <= 1 {
		vpAssert("no proof from an invalid or foreign witness", err != nil)
		return
	}
	vpAssume(err == nil)
	nr := proof.NonRevocationProof
	switch dev {
	case 2:
		t := new(big.Int).Exp(s.pk.S, d, s.pk.N)
		nr.Cr = t.Mul(t, nr.Cr).Mod(t, s.pk.N)
	case 3:
		t := new(big.Int).Exp(s.pk.S, d, s.pk.N)
		nr.Cu = t.Mul(t, nr.Cu).Mod(t, s.pk.N)
	case 4:
		names := []string{"beta", "delta", "epsilon", "zeta"}
		n := names[vpChoose("resp", 4)]
		nr.Responses[n] = new(big.Int).Add(nr.Responses[n], d)
	case 5: // the revocation attribute's response is changed (and with it alpha)
		proof.AResponses[2] = new(big.Int).Add(proof.AResponses[2], d)
	case 6: // non-revocation part transplanted from a proof of another credential (same session)
		o := vpRevocableCredential(1, "o")
		p2, err := vpProveWith(o.cred, nil, true, ctx, nonce, vpBigRange("r0o", new(big.Int).Lsh(big.NewInt(1), 581), new(big.Int).Lsh(big.NewInt(1), 591)))
		vpAssume(err == nil)
		proof.NonRevocationProof = p2.NonRevocationProof
	case 7: // non-revocation part dropped although the session asked for it: accepted by Verify, visible to the caller
		proof.NonRevocationProof = nil
		vpAssert("a proof without non-revocation part reports so", !proof.HasNonRevocationProof())
		return
	}
	vpAssert("altered or transplanted non-revocation part is rejected", !vpVerifyRobust(proof, s.pk, ctx, nonce))
}

// C11-O3: histories. After preparing a commitment, the witness is updated
// (the issuer re-signs the same accumulator at a later time, or revokes another
// value so that the index grows) and possibly the commitment is prepared
// again; the proof made afterwards verifies and the verifier reads index and
// time of the accumulator the witness currently stands at.
func vpC11_O3() {
	s := vpRevocableCredential(0, "")
	w := s.cred.NonRevocationWitness
	hist := vpChoose("history", 4)
	if hist != 2 {
		vpAssert("cache prepared", s.cred.NonrevPrepareCache() == nil)
	}
	var newAcc *revocation.Accumulator
	var upd *revocation.Update
	var err error
	if vpBool("revokeOther") {
		other := vpPrime("eOther", big.NewInt(3), big.NewInt(65521))
		vpAssume(other.Cmp(w.E) != 0)
		var ev *revocation.Event
		newAcc, ev, err = s.acc.Remove(s.sk, other, s.upd.Events[0])
		vpAssume(err == nil)
		upd, err = revocation.NewUpdate(s.sk, newAcc, []*revocation.Event{s.upd.Events[0], ev})
	} else {
		dt := vpIntRange("dt", 1, 1000000)
		newAcc = &revocation.Accumulator{Nu: s.acc.Nu, Index: s.acc.Index, Time: s.acc.Time + int64(dt), EventHash: s.acc.EventHash}
		vpAssume(newAcc.Time > s.acc.Time)
		upd, err = revocation.NewUpdate(s.sk, newAcc, s.upd.Events)
	}
	vpAssume(err == nil)
	vpAssert("witness update succeeds", w.Update(s.pk, upd) == nil)
	if hist == 1 {
		vpAssert("cache prepared again", s.cred.NonrevPrepareCache() == nil)
	}
	ctx, nonce := vpBigBits("ctx", 256), vpBigBits("nonce", 80)
	lo, hi := new(big.Int).Lsh(big.NewInt(1), 581), new(big.Int).Lsh(big.NewInt(1), 591)
	proof, err := vpProveWith(s.cred, []int{1}, true, ctx, nonce, vpBigRange("r0", lo, hi))
	vpAssert("proof after the update is created", err == nil && proof != nil)
	if err != nil {
		return
	}
	vpAssert("proof after the update verifies", vpVerifyRobust(proof, s.pk, ctx, nonce))
	got := proof.NonRevocationProof.SignedAccumulator.Accumulator
	cur := w.SignedAccumulator.Accumulator
	vpAssert("verifier reads the witness's current accumulator index", got != nil && got.Index == cur.Index && got.Index == newAcc.Index)
	vpAssert("verifier reads the witness's current accumulator time", got != nil && got.Time == cur.Time && got.Time == newAcc.Time)
}

// vpxWireProofD: the proof as it arrives at a verifier after JSON transport. Natively the real
// encoding/json round trip; symbolically a structural copy that follows the struct tags.
func vpxWireProofD(p *ProofD) (*ProofD, bool) {
	bts, err := json.Marshal(p)
	if err != nil {
		return nil, false
	}
	out := &ProofD{}
	if err := json.Unmarshal(bts, out); err != nil {
		return nil, false
	}
	return out, true
}

// vpxWireWitness: a witness as it is read back from storage or received (JSON).
func vpxWireWitness(w *revocation.Witness) (*revocation.Witness, bool) {
	bts, err := json.Marshal(w)
	if err != nil {
		return nil, false
	}
	out := &revocation.Witness{}
	if err := json.Unmarshal(bts, out); err != nil {
		return nil, false
	}
	return out, true
}

func init() {
	vpHarnesses["vpC18_O4"] = vpC18_O4
}

// C18-O4: protocol messages survive JSON transport with unchanged meaning. A
// disclosure proof with a disclosed attribute, a hidden attribute carrying a true
// range statement and a non-revocation part verifies after transport exactly as
// before, reports the same disclosed values and the same proven statement; a
// stored witness read back verifies and has the same values; a message with a
// negative integer is refused by the encoding rather than altered.
func vpC18_O4() {
	pk, sk := vpKeys(0, 5, 1024, true)
	upd, err := revocation.NewAccumulator(sk)
	vpAssume(err == nil)
	acc, err := upd.SignedAccumulator.UnmarshalVerify(pk)
	vpAssume(err == nil)
	w, err := revocation.RandomWitness(sk, acc)
	vpAssume(err == nil)
	w.SignedAccumulator = upd.SignedAccumulator
	attrs := []*big.Int{vpBigBits("secret", 255), vpBigBits("a1", 256), vpBigBits("a2", 256), w.E}
	vpAssume(attrs[0].Cmp(w.E) != 0 && attrs[1].Cmp(w.E) != 0 && attrs[2].Cmp(w.E) != 0)
	sig, err := SignMessageBlock(sk, pk, attrs)
	vpAssume(err == nil)
	cred := &Credential{Signature: sig, Pk: pk, Attributes: attrs, NonRevocationWitness: w}
	ctx, nonce := vpBigBits("ctx", 256), vpBigBits("nonce", 80)

	if vpBool("witnessOnly") {
		stored, ok := vpxWireWitness(w)
		vpAssert("a stored witness is read back", ok && stored != nil)
		if !ok {
			return
		}
		vpAssert("a witness read back verifies and has the same values", stored.Verify(pk) == nil && stored.U.Cmp(w.U) == 0 && stored.E.Cmp(w.E) == 0)
		return
	}
	bound := vpBig("bound")
	vpAssume(bound.Sign() >= 0 && attrs[2].Cmp(bound) >= 0 && new(big.Int).Sub(attrs[2], bound).BitLen() <= 255)
	stmts := map[int][]*rangeproof.Statement{2: {{Sign: 1, Factor: 1, Bound: bound}}}
	b, err := cred.CreateDisclosureProofBuilder([]int{1}, stmts, true)
	vpAssume(err == nil)
	// (randomizers of the secret key and of attribute 2 kept above 2^580: recorded finding of C11-O1)
	lo, hi := new(big.Int).Lsh(big.NewInt(1), 581), new(big.Int).Lsh(big.NewInt(1), 591)
	b.attrRandomizers[2] = vpBigRange("r2", lo, hi)
	bl := ProofBuilderList{b}
	c, err := bl.ChallengeWithRandomizers(ctx, nonce, map[string]*big.Int{"secretkey": vpBigRange("r0", lo, hi)}, false)
	vpAssume(err == nil)
	pl, err := bl.BuildDistributedProofList(c, nil)
	vpAssume(err == nil)
	proof := pl[0].(*ProofD)
	if vpBool("negativeField") {
		proof.ADisclosed[1] = new(big.Int).Neg(new(big.Int).Add(proof.ADisclosed[1], big.NewInt(1)))
		_, ok := vpxWireProofD(proof)
		vpAssert("a message with a negative integer is refused by the encoding", !ok)
		return
	}
	received, ok := vpxWireProofD(proof)
	vpAssume(ok) // (honest responses are negative only on a 2^-80 tail)
	before := ProofList{proof}.Verify([]*gabikeys.PublicKey{pk}, ctx, nonce, false, nil)
	after := ProofList{received}.Verify([]*gabikeys.PublicKey{pk}, ctx, nonce, false, nil)
	vpAssert("a proof verifies after transport exactly as before", before && after)
	vpAssert("transported proof reports the same disclosed values", len(received.ADisclosed) == 1 && received.ADisclosed[1] != nil && received.ADisclosed[1].Cmp(attrs[1]) == 0)
	t1, f1, b1 := proof.RangeProofs[2][0].ProvenStatement()
	t2, f2, b2 := received.RangeProofs[2][0].ProvenStatement()
	vpAssert("transported proof reports the same proven statement", t1 == t2 && f1 == f2 && b1.Cmp(b2) == 0)
}

// C11-O6: transport. An honest disclosure proof with non-revocation part sent over
// the wire verifies at the receiver, who reads the accumulator it was made
// against. A revoked holder who makes the proof against the old accumulator but
// attaches the issuer's newest signed accumulator - keeping the old accumulator
// in the in-memory field of the message - is rejected: what the verifier uses is
// only what the issuer signed.
func vpC11_O6() {
	s := vpRevocableCredential(0, "")
	ctx, nonce := vpBigBits("ctx", 256), vpBigBits("nonce", 80)
	forge := vpBool("revokedHolderForges")
	var newest *revocation.SignedAccumulator
	if forge {
		acc1, ev, err := s.acc.Remove(s.sk, s.cred.NonRevocationWitness.E, s.upd.Events[0])
		vpAssume(err == nil)
		upd1, err := revocation.NewUpdate(s.sk, acc1, []*revocation.Event{ev})
		vpAssume(err == nil)
		newest = upd1.SignedAccumulator
	}
	// (the secret-key randomizer is kept above 2^580: below it the recorded finding about the
	// verifier's index heuristic, C11-O1, would reject the honest proof)
	lo, hi := new(big.Int).Lsh(big.NewInt(1), 581), new(big.Int).Lsh(big.NewInt(1), 591)
	proof, err := vpProveWith(s.cred, []int{1}, true, ctx, nonce, vpBigRange("r0", lo, hi))
	vpAssume(err == nil)
	if forge {
		proof.NonRevocationProof.SignedAccumulator = &revocation.SignedAccumulator{Data: newest.Data, PKCounter: newest.PKCounter, Accumulator: s.acc}
	}
	received, ok := vpxWireProofD(proof)
	// (the text encodings refuse negative integers; an honest response is negative only on the
	// 2^-80 tail where a commitment randomizer is smaller than challenge times secret)
	vpAssume(ok)
	vpAssert("a proof survives JSON transport", received != nil && received.NonRevocationProof != nil)
	accepted := ProofList{received}.Verify([]*gabikeys.PublicKey{s.pk}, ctx, nonce, false, nil)
	if forge {
		vpAssert("a revoked holder's proof carrying the newest signed accumulator is rejected after transport", !accepted)
		return
	}
	vpAssert("an honest non-revocation proof verifies after transport", accepted)
	got := received.NonRevocationProof.SignedAccumulator.Accumulator
	vpAssert("after transport the verifier reads the accumulator the proof was made against", got != nil && got.Index == s.acc.Index && got.Time == s.acc.Time)
}

// C11-O7: the non-revocation part must be about the revocation attribute of the
// credential being shown. A holder owns a second, unrevoked credential B (witness
// u_B, e_B) under the same key and had credential A issued with the secret-key
// attribute (which the holder chooses) equal to e_B. After A's revocation
// attribute is revoked, the holder shows A with a non-revocation part made from
// B's witness and tied to the response of attribute 0, hiding A's real
// revocation attribute behind a large randomizer. This must be rejected.
func vpC11_O7() {
	pk, sk := vpKeys(0, 4, 1024, true)
	upd, err := revocation.NewAccumulator(sk)
	vpAssume(err == nil)
	acc, err := upd.SignedAccumulator.UnmarshalVerify(pk)
	vpAssume(err == nil)
	witA, err := revocation.RandomWitness(sk, acc)
	vpAssume(err == nil)
	witB, err := revocation.RandomWitness(sk, acc)
	vpAssume(err == nil && witA.E.Cmp(witB.E) != 0)
	// credential A: (secret = e_B, a1, e_A)
	attrs := []*big.Int{witB.E, vpBigBits("a1", 256), witA.E}
	vpAssume(attrs[1].Cmp(witA.E) != 0 && attrs[1].Cmp(witB.E) != 0)
	sig, err := SignMessageBlock(sk, pk, attrs)
	vpAssume(err == nil)
	credA := &Credential{Signature: sig, Pk: pk, Attributes: attrs}
	// A is revoked; B's witness follows the update
	acc1, ev, err := acc.Remove(sk, witA.E, upd.Events[0])
	vpAssume(err == nil)
	upd1, err := revocation.NewUpdate(sk, acc1, []*revocation.Event{upd.Events[0], ev})
	vpAssume(err == nil)
	witB.SignedAccumulator = upd.SignedAccumulator
	vpAssume(witB.Update(pk, upd1) == nil)
	// the showing of A
	ctx, nonce := vpBigBits("ctx", 256), vpBigBits("nonce", 80)
	b, err := credA.CreateDisclosureProofBuilder([]int{1}, nil, false)
	vpAssume(err == nil)
	nb := &NonRevocationProofBuilder{pk: pk, witness: witB, index: witB.SignedAccumulator.Accumulator.Index, randomizer: revocation.NewProofRandomizer()}
	_, err = nb.Commit()
	vpAssume(err == nil)
	b.nonrevBuilder = nb
	lo, hi := new(big.Int).Lsh(big.NewInt(1), 581), new(big.Int).Lsh(big.NewInt(1), 591)
	b.attrRandomizers[2] = vpBigRange("r2", lo, hi)
	bl := ProofBuilderList{b}
	c, err := bl.ChallengeWithRandomizers(ctx, nonce, map[string]*big.Int{"secretkey": nb.randomizer}, false)
	vpAssume(err == nil && c.Sign() != 0)
	pl, err := bl.BuildDistributedProofList(c, nil)
	vpAssume(err == nil)
	proof := pl[0].(*ProofD)
	vpAssert("a revoked credential shown with another credential's witness through the secret-key slot is rejected", !vpVerifyRobust(proof, pk, ctx, nonce))
}

func init() {
	vpHarnesses["vpC11_O7"] = vpC11_O7
	vpHarnesses["vpC11_O6"] = vpC11_O6
	vpHarnesses["vpC11_O4"] = vpC11_O4
	vpHarnesses["vpC11_O5"] = vpC11_O5
}

// C11-O5: a revoked holder (its prime was removed from the accumulator; the old
// witness is useless against the new accumulator) computes what it still can
// honestly and replaces C_u and/or C_r by a multiple k*N of the modulus
// (k = -2..3, including the plain 0): the relations through the replaced
// element collapse to 0 for every challenge, so their commitments can be
// hashed as 0 beforehand. The newest signed accumulator is attached. Such a
// proof must be rejected: the verifier never reads "not revoked" for it.
func vpC11_O5() {
	s := vpRevocableCredential(0, "")
	ctx, nonce := vpBigBits("ctx", 256), vpBigBits("nonce", 80)
	acc1, ev, err := s.acc.Remove(s.sk, s.cred.NonRevocationWitness.E, s.upd.Events[0])
	vpAssume(err == nil)
	upd1, err := revocation.NewUpdate(s.sk, acc1, []*revocation.Event{ev})
	vpAssume(err == nil)
	b, err := s.cred.CreateDisclosureProofBuilder([]int{1}, nil, true)
	vpAssume(err == nil && len(b.nonrevBuilder.commitments) == 6)
	mult := func(name string) *big.Int {
		return new(big.Int).Mul(big.NewInt(int64(vpChoose(name, 6)-2)), s.pk.N)
	}
	// commitments are [C_r, C_u, nu, T_cr, T_nu, T_one]
	cm := b.nonrevBuilder.commitments
	which := vpChoose("degenerate", 3) // 0: C_u, 1: C_r, 2: both
	var fCr, fCu *big.Int
	if which != 1 {
		fCu = mult("kCu")
		cm[1], cm[4] = fCu, big.NewInt(0)
	}
	if which != 0 {
		fCr = mult("kCr")
		cm[0], cm[3], cm[5] = fCr, big.NewInt(0), big.NewInt(0)
	}
	cm[2] = acc1.Nu
	c, err := ProofBuilderList{b}.Challenge(ctx, nonce, false)
	vpAssume(err == nil && c.Sign() != 0)
	proof := b.CreateProof(c).(*ProofD)
	if fCu != nil {
		proof.NonRevocationProof.Cu = fCu
	}
	if fCr != nil {
		proof.NonRevocationProof.Cr = fCr
	}
	proof.NonRevocationProof.SignedAccumulator = &revocation.SignedAccumulator{Data: upd1.SignedAccumulator.Data, PKCounter: upd1.SignedAccumulator.PKCounter}
	vpAssert("a revoked holder's proof with commitments that vanish modulo N is rejected", !vpVerifyRobust(proof, s.pk, ctx, nonce))
}

// C11-O4: a holder without a usable witness attaches a non-revocation part
// with degenerate commitments C_r = C_u = 0: every reconstructed commitment
// collapses to 0 whatever the responses are, so the prover can hash zeros into
// the challenge. Such a part proves nothing and must be rejected.
func vpC11_O4() {
	s := vpRevocableCredential(0, "")
	ctx, nonce := vpBigBits("ctx", 256), vpBigBits("nonce", 80)
	b, err := s.cred.CreateDisclosureProofBuilder([]int{1}, nil, false)
	vpAssume(err == nil)
	// the response of the revocation attribute must look like a witness response (below 2^580)
	b.attrRandomizers[2] = vpBigBits("r2", 500)
	lo, hi := new(big.Int).Lsh(big.NewInt(1), 581), new(big.Int).Lsh(big.NewInt(1), 591)
	commit, err := b.Commit(map[string]*big.Int{"secretkey": vpBigRange("r0", lo, hi)})
	vpAssume(err == nil)
	zero := big.NewInt(0)
	contribs := append(append([]*big.Int{}, commit...), zero, zero, s.acc.Nu, zero, zero, zero)
	c := createChallenge(ctx, nonce, contribs, false)
	vpAssume(c.Sign() != 0)
	proof := b.CreateProof(c).(*ProofD)
	one := big.NewInt(1)
	proof.NonRevocationProof = &revocation.Proof{Cr: big.NewInt(0), Cu: big.NewInt(0),
		Responses:         map[string]*big.Int{"beta": one, "delta": one, "epsilon": one, "zeta": one},
		SignedAccumulator: &revocation.SignedAccumulator{Data: s.upd.SignedAccumulator.Data, PKCounter: s.upd.SignedAccumulator.PKCounter}}
	vpAssert("a non-revocation part with degenerate commitments is rejected", !vpVerifyRobust(proof, s.pk, ctx, nonce))
}

func init() {
	vpHarnesses["vpC11_O8"] = vpC11_O8
}

// C11-O8: the non-revocation part proves knowledge of a witness for the value whose
// response it shares with the signature proof - nothing else ties it to the credential.
// A holder whose credential A is revoked builds, in one session, the disclosure proof of A
// and a complete non-revocation part from the witness of its other, unrevoked credential B
// (own randomiser), and sends B's alpha response along inside the non-revocation part.
// The verifier has to take the response of A's hidden revocation attribute, not the one
// sent: the proof is rejected.
func vpC11_O8() {
	pk, sk := vpKeys(0, 4, 1024, true)
	upd, err := revocation.NewAccumulator(sk)
	vpAssume(err == nil)
	acc, err := upd.SignedAccumulator.UnmarshalVerify(pk)
	vpAssume(err == nil)
	witA, err := revocation.RandomWitness(sk, acc)
	vpAssume(err == nil)
	witB, err := revocation.RandomWitness(sk, acc)
	vpAssume(err == nil && witA.E.Cmp(witB.E) != 0)
	attrs := []*big.Int{vpBigBits("secret", 255), vpBigBits("a1", 256), witA.E}
	vpAssume(attrs[1].Cmp(witA.E) != 0 && attrs[1].Cmp(witB.E) != 0 && attrs[0].Cmp(witB.E) != 0 && attrs[0].Cmp(witA.E) != 0)
	sig, err := SignMessageBlock(sk, pk, attrs)
	vpAssume(err == nil)
	credA := &Credential{Signature: sig, Pk: pk, Attributes: attrs}
	acc1, ev, err := acc.Remove(sk, witA.E, upd.Events[0])
	vpAssume(err == nil)
	upd1, err := revocation.NewUpdate(sk, acc1, []*revocation.Event{upd.Events[0], ev})
	vpAssume(err == nil)
	witB.SignedAccumulator = upd.SignedAccumulator
	vpAssume(witB.Update(pk, upd1) == nil)
	ctx, nonce := vpBigBits("ctx", 256), vpBigBits("nonce", 80)
	b, err := credA.CreateDisclosureProofBuilder(nil, nil, false)
	vpAssume(err == nil)
	nb := &NonRevocationProofBuilder{pk: pk, witness: witB, index: witB.SignedAccumulator.Accumulator.Index, randomizer: revocation.NewProofRandomizer()}
	_, err = nb.Commit()
	vpAssume(err == nil)
	b.nonrevBuilder = nb
	// the ordinary attribute gets a long randomiser, A's revocation attribute a short one, so that
	// the verifier's choice of the revocation attribute is not in question
	lo, hi := new(big.Int).Lsh(big.NewInt(1), 581), new(big.Int).Lsh(big.NewInt(1), 591)
	b.attrRandomizers[1] = vpBigRange("r1", lo, hi)
	b.attrRandomizers[2] = vpBigRange("r2", big.NewInt(0), new(big.Int).Lsh(big.NewInt(1), 500))
	bl := ProofBuilderList{b}
	rs, err := NewProofRandomizers()
	vpAssume(err == nil)
	c, err := bl.ChallengeWithRandomizers(ctx, nonce, rs, false)
	vpAssume(err == nil && c.Sign() != 0)
	pl, err := bl.BuildDistributedProofList(c, nil)
	vpAssume(err == nil)
	proof := pl[0].(*ProofD)
	proof.NonRevocationProof.Responses["alpha"] = nb.CreateProof(c).Responses["alpha"]
	vpAssert("a revoked credential shown with another credential's witness and that witness's own alpha response is rejected", !vpVerifyRobust(proof, pk, ctx, nonce))
}
