package gabi

import (
	"github.com/privacybydesign/gabi/big"
	"github.com/privacybydesign/gabi/gabikeys"
	"github.com/privacybydesign/gabi/revocation"
)

func init() {
	vpHarnesses["vpC11_O1"] = vpC11_O1
	vpHarnesses["vpC11_O2"] = vpC11_O2
}

type vpRevSetup struct {
	pk   *gabikeys.PublicKey
	sk   *gabikeys.PrivateKey
	upd  *revocation.Update
	acc  *revocation.Accumulator
	cred *Credential
}

// vpRevocableCredential issues (with the real code) a credential with attributes
// (secret, a1, e) and a valid witness for e against a fresh accumulator.
func vpRevocableCredential(keyIdx int, prefix string) *vpRevSetup {
	s := &vpRevSetup{}
	s.pk, s.sk = vpKeys(keyIdx, 4, 1024, true)
	var err error
	s.upd, err = revocation.NewAccumulator(s.sk)
	vpAssume(err == nil)
	s.acc, err = s.upd.SignedAccumulator.UnmarshalVerify(s.pk)
	vpAssume(err == nil)
	w, err := revocation.RandomWitness(s.sk, s.acc)
	vpAssume(err == nil)
	w.SignedAccumulator = s.upd.SignedAccumulator
	attrs := []*big.Int{vpBigBits(prefix+"secret", 255), vpBigBits(prefix+"a1", 256), w.E}
	// the witness value is a fresh random prime: it does not coincide with another attribute
	vpAssume(attrs[0].Cmp(w.E) != 0 && attrs[1].Cmp(w.E) != 0)
	sig, err := SignMessageBlock(s.sk, s.pk, attrs)
	vpAssume(err == nil)
	s.cred = &Credential{Signature: sig, Pk: s.pk, Attributes: attrs, NonRevocationWitness: w}
	return s
}

// vpProveWith builds a proof whose secret-key randomizer is chosen by the harness
// (all other randomness is the library's).
func vpProveWith(cred *Credential, disclosed []int, nonrev bool, ctx, nonce, skRandomizer *big.Int) (*ProofD, error) {
	b, err := cred.CreateDisclosureProofBuilder(disclosed, nil, nonrev)
	if err != nil {
		return nil, err
	}
	// the randomizer of the ordinary hidden attribute 1 is chosen by the harness as well
	// (it is a uniform LmCommit-bit value in the library)
	if _, hidden := b.attrRandomizers[1]; hidden {
		b.attrRandomizers[1] = vpBigBits("r1", int(cred.Pk.Params.LmCommit))
	}
	bl := ProofBuilderList{b}
	c, err := bl.ChallengeWithRandomizers(ctx, nonce, map[string]*big.Int{"secretkey": skRandomizer}, false)
	if err != nil {
		return nil, err
	}
	pl, err := bl.BuildDistributedProofList(c, nil)
	if err != nil {
		return nil, err
	}
	return pl[0].(*ProofD), nil
}

// vpVerifyRobust verifies; natively it repeats the verification so that every
// iteration order of the proof's maps is exercised with overwhelming probability.
func vpVerifyRobust(p *ProofD, pk *gabikeys.PublicKey, ctx, nonce *big.Int) bool {
	reps := 1
	if vpNative() {
		reps = 32
	}
	ok := true
	for i := 0; i < reps; i++ {
		ok = p.Verify(pk, ctx, nonce, false) && ok
	}
	return ok
}

// C11-O1: an honest disclosure proof with a non-revocation part (fresh or
// cached commitment, attribute 1 disclosed or not, any secret-key randomizer
// the protocol allows, any iteration order of the response map) verifies and
// the verifier reads the accumulator the proof was made against.
func vpC11_O1() {
	s := vpRevocableCredential(0, "")
	if vpBool("prepareCache") {
		vpAssert("cache prepared", s.cred.NonrevPrepareCache() == nil)
	}
	var disclosed []int
	if vpBool("disc1") {
		disclosed = []int{1}
	}
	ctx, nonce := vpBigBits("ctx", 256), vpBigBits("nonce", 80)
	r0 := vpBigBits("r0", int(gabikeys.DefaultSystemParameters[1024].LmCommit))
	proof, err := vpProveWith(s.cred, disclosed, true, ctx, nonce, r0)
	vpAssert("honest non-revocation proof is created", err == nil && proof != nil && proof.NonRevocationProof != nil)
	if err != nil {
		return
	}
	vpShuffle(proof.AResponses)
	vpAssert("honest non-revocation proof verifies", vpVerifyRobust(proof, s.pk, ctx, nonce))
	acc := proof.NonRevocationProof.SignedAccumulator.Accumulator
	vpAssert("verifier reads the accumulator the proof was made against", acc != nil && acc.Index == s.acc.Index && acc.Nu.Cmp(s.acc.Nu) == 0)
}

// C11-O2: non-revocation parts that are not backed by a valid witness of this
// credential are refused: an invalid witness value, a witness for another
// value, altered commitments/responses, a transplanted non-revocation part.
func vpC11_O2() {
	s := vpRevocableCredential(0, "")
	ctx, nonce := vpBigBits("ctx", 256), vpBigBits("nonce", 80)
	r0 := vpBigRange("r0", new(big.Int).Lsh(big.NewInt(1), 581), new(big.Int).Lsh(big.NewInt(1), 591))
	d := vpBig("d")
	vpAssume(d.Sign() > 0)
	dev := vpChoose("deviation", 8)
	switch dev {
	case 0: // witness value that does not satisfy u^e = nu
		t := new(big.Int).Exp(s.pk.S, d, s.pk.N)
		s.cred.NonRevocationWitness.U = t.Mul(t, s.cred.NonRevocationWitness.U).Mod(t, s.pk.N)
	case 1: // witness for a value that is not an attribute of this credential
		w2, err := revocation.RandomWitness(s.sk, s.acc)
		vpAssume(err == nil && w2.E.Cmp(s.cred.NonRevocationWitness.E) != 0)
		vpAssume(w2.E.Cmp(s.cred.Attributes[0]) != 0 && w2.E.Cmp(s.cred.Attributes[1]) != 0)
		w2.SignedAccumulator = s.upd.SignedAccumulator
		s.cred.NonRevocationWitness = w2
	}
	proof, err := vpProveWith(s.cred, nil, true, ctx, nonce, r0)
	if dev <= 1 {
		vpAssert("no proof from an invalid or foreign witness", err != nil)
		return
	}
	vpAssume(err == nil)
	nr := proof.NonRevocationProof
	switch dev {
	case 2:
		t := new(big.Int).Exp(s.pk.S, d, s.pk.N)
		nr.Cr = t.Mul(t, nr.Cr).Mod(t, s.pk.N)
	case 3:
		t := new(big.Int).Exp(s.pk.S, d, s.pk.N)
		nr.Cu = t.Mul(t, nr.Cu).Mod(t, s.pk.N)
	case 4:
		names := []string{"beta", "delta", "epsilon", "zeta"}
		n := names[vpChoose("resp", 4)]
		nr.Responses[n] = new(big.Int).Add(nr.Responses[n], d)
	case 5: // the revocation attribute's response is changed (and with it alpha)
		proof.AResponses[2] = new(big.Int).Add(proof.AResponses[2], d)
	case 6: // non-revocation part transplanted from a proof of another credential (same session)
		o := vpRevocableCredential(1, "o")
		p2, err := vpProveWith(o.cred, nil, true, ctx, nonce, vpBigRange("r0o", new(big.Int).Lsh(big.NewInt(1), 581), new(big.Int).Lsh(big.NewInt(1), 591)))
		vpAssume(err == nil)
		proof.NonRevocationProof = p2.NonRevocationProof
	case 7: // non-revocation part dropped although the session asked for it: accepted by Verify, visible to the caller
		proof.NonRevocationProof = nil
		vpAssert("a proof without non-revocation part reports so", !proof.HasNonRevocationProof())
		return
	}
	vpAssert("altered or transplanted non-revocation part is rejected", !vpVerifyRobust(proof, s.pk, ctx, nonce))
}
