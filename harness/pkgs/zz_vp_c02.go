package gabi

import (
	"github.com/privacybydesign/gabi/rangeproof"
	"fmt"

	"github.com/privacybydesign/gabi/big"
	"github.com/privacybydesign/gabi/gabikeys"
)

func init() {
	vpHarnesses["vpC02_O1"] = vpC02_O1
	vpHarnesses["vpC03_O1"] = vpC03_O1
}

// vpCredentialFor signs (secret, fresh attributes...) under the given key.
func vpCredentialFor(pk *gabikeys.PublicKey, sk *gabikeys.PrivateKey, prefix string, secret *big.Int, nattr, bits int) *Credential {
	attrs := append([]*big.Int{secret}, vpMessages(prefix, nattr, bits)...)
	sig, err := SignMessageBlock(sk, pk, attrs)
	vpAssume(err == nil)
	return &Credential{Signature: sig, Pk: pk, Attributes: attrs}
}

// vpBuilder makes builder number i: a disclosure builder (kind 0) over a fresh
// credential or an issuance commitment builder (kind 1), holding `secret`.
func vpBuilder(i, kind int, pk *gabikeys.PublicKey, sk *gabikeys.PrivateKey, secret, ctx *big.Int) ProofBuilder {
	if kind == 0 {
		cred := vpCredentialFor(pk, sk, fmt.Sprintf("b%da", i), secret, 1, 256)
		var disclosed []int
		if vpBool(fmt.Sprintf("b%ddisc", i)) {
			disclosed = []int{1}
		}
		b, err := cred.CreateDisclosureProofBuilder(disclosed, nil, false)
		vpAssume(err == nil)
		return b
	}
	b, err := NewCredentialBuilder(pk, ctx, secret, vpBigBits(fmt.Sprintf("b%dn2", i), 80), nil, nil)
	vpAssume(err == nil)
	return b
}

// C02: an honest proof list (1..2 builders, disclosure and/or issuance, one
// or two issuer keys) verifies for exactly the session tuple it was made for:
// any change of context, nonce, session flag, key order, proof order, a
// dropped or duplicated proof, an empty list or a proof spliced in from
// another session makes verification fail.
func vpC02_O1() {
	pks := make([]*gabikeys.PublicKey, 2)
	sks := make([]*gabikeys.PrivateKey, 2)
	pks[0], sks[0] = vpKeys(0, 3, 1024, false)
	pks[1], sks[1] = vpKeys(1, 3, 1024, false)
	secret := vpBigBits("secret", 255)
	ctx, nonce := vpBigBits("ctx", 256), vpBigBits("nonce", 80)
	issig := vpBool("issig")
	n := 1 + vpChoose("nbuilders", vpParam("maxbuilders", 2))
	var builders ProofBuilderList
	var keys []*gabikeys.PublicKey
	for i := 0; i < n; i++ {
		kind := vpChoose(fmt.Sprintf("kind%d", i), 2)
		ki := i
		if vpParam("allkeys", 0) == 1 {
			ki = vpChoose(fmt.Sprintf("key%d", i), 2)
		}
		builders = append(builders, vpBuilder(i, kind, pks[ki], sks[ki], secret, ctx))
		keys = append(keys, pks[ki])
	}
	pl, err := builders.BuildProofList(ctx, nonce, issig)
	vpAssert("honest list is built", err == nil)
	if err != nil {
		return
	}
	vpAssert("honest list verifies in its own session", pl.Verify(keys, ctx, nonce, issig, nil))
	vpAssume(pl[0].(interface{ Challenge() *big.Int }).Challenge().Sign() != 0)

	d := vpBig("d")
	vpAssume(d.Sign() != 0)
	dev := 8
	if vpParam("splice", 0) == 0 {
		dev = vpChoose("deviation", 8)
	}
	switch dev {
	case 0:
		vpAssert("other context rejected", !pl.Verify(keys, new(big.Int).Add(ctx, d), nonce, issig, nil))
	case 1:
		vpAssert("other nonce rejected", !pl.Verify(keys, ctx, new(big.Int).Add(nonce, d), issig, nil))
	case 2:
		vpAssert("other session kind rejected", !pl.Verify(keys, ctx, nonce, !issig, nil))
	case 3: // one key replaced by the other issuer key
		i := vpChoose("pos", n)
		other := pks[0]
		if keys[i] == pks[0] {
			other = pks[1]
		}
		k2 := append([]*gabikeys.PublicKey{}, keys...)
		k2[i] = other
		vpAssert("substituted key rejected", !pl.Verify(k2, ctx, nonce, issig, nil))
	case 4: // reordered proofs (with their keys)
		vpAssume(n == 2)
		vpAssert("reordered list rejected", !ProofList{pl[1], pl[0]}.Verify([]*gabikeys.PublicKey{keys[1], keys[0]}, ctx, nonce, issig, nil))
	case 5: // dropped proof
		vpAssume(n == 2)
		i := vpChoose("pos", 2)
		vpAssert("sub-list rejected", !ProofList{pl[i]}.Verify([]*gabikeys.PublicKey{keys[i]}, ctx, nonce, issig, nil))
	case 6: // duplicated proof
		vpAssert("duplicated proof rejected", !ProofList{pl[0], pl[0]}.Verify([]*gabikeys.PublicKey{keys[0], keys[0]}, ctx, nonce, issig, nil))
	case 7:
		vpAssert("empty list rejected", !ProofList{}.Verify([]*gabikeys.PublicKey{}, ctx, nonce, issig, nil))
		vpAssert("key count mismatch rejected", !pl.Verify(append(keys, pks[0]), ctx, nonce, issig, nil))
		// open (nil) entries never stand for proofs: not as padding of a good list, not as a list
		padKeys := append(append([]*gabikeys.PublicKey{}, keys...), pks[0])
		padded := append(append(ProofList{}, pl...), nil)
		vpAssert("list padded with an empty entry rejected", !padded.Verify(padKeys, ctx, nonce, issig, nil))
		frontKeys := append([]*gabikeys.PublicKey{pks[1]}, keys...)
		front := append(ProofList{nil}, pl...)
		vpAssert("list padded with an empty entry rejected", !front.Verify(frontKeys, ctx, nonce, issig, nil))
		vpAssert("list of empty entries rejected", !ProofList{nil}.Verify([]*gabikeys.PublicKey{pks[0]}, ctx, nonce, issig, nil))
		vpAssert("list of empty entries rejected", !ProofList{nil, nil}.Verify(pks, ctx, nonce, issig, nil))
	case 8: // splice: first proof replaced by the proof of another session of the same builders' owner
		b2 := vpBuilder(7, vpChoose("kind7", 2), keys[0], sks[0], secret, ctx)
		if keys[0] == pks[1] {
			b2 = vpBuilder(7, vpChoose("kind7", 2), keys[0], sks[1], secret, ctx)
		}
		nonceB := vpBigBits("nonceB", 80)
		vpAssume(nonceB.Cmp(nonce) != 0)
		pl2, err := ProofBuilderList{b2}.BuildProofList(ctx, nonceB, issig)
		vpAssume(err == nil)
		spliced := append(ProofList{pl2[0]}, pl[1:]...)
		vpAssert("spliced list rejected", !spliced.Verify(keys, ctx, nonce, issig, nil))
	}
}

// C03: a list whose members carry the same keyshare label (or no labels at
// all) is accepted only if they prove knowledge of the same secret; colluding
// holders who pool their secrets cannot equalise the secret-key responses by
// adding a second response for the secret-key base to a commitment proof.
func vpC03_O1() {
	pk, sk := vpKeys(0, 3, 1024, false)
	s1, s2 := vpBigBits("s1", 255), vpBigBits("s2", 255)
	same := vpBool("samesecret")
	if same {
		s2 = s1
	} else {
		vpAssume(s1.Cmp(s2) != 0)
	}
	ctx, nonce := vpBigBits("ctx", 256), vpBigBits("nonce", 80)
	k1, k2 := vpChoose("kind0", 2), vpChoose("kind1", 2)
	// the second proof is under the same key, under another key of the same size, or under a
	// 2048-bit key (linking is by secret, whatever the keys are)
	pk2, sk2 := pk, sk
	switch vpChoose("secondKey", 3) {
	case 1:
		pk2, sk2 = vpKeys(1, 3, 1024, false)
	case 2:
		pk2, sk2 = vpKeys(1, 3, 2048, false)
	}
	builders := ProofBuilderList{vpBuilder(0, k1, pk, sk, s1, ctx), vpBuilder(1, k2, pk2, sk2, s2, ctx)}
	keys := []*gabikeys.PublicKey{pk, pk2}
	pl, err := builders.BuildProofList(ctx, nonce, false)
	vpAssume(err == nil)
	c := pl[0].(interface{ Challenge() *big.Int }).Challenge()
	vpAssume(c.Sign() != 0)

	var labels []string
	sameLabel := true
	switch vpChoose("labels", 3) {
	case 1:
		labels = []string{"ks", "ks"}
	case 2:
		labels = []string{"ks", "other"}
		sameLabel = false
	}
	collude := vpBool("collude")
	if collude {
		vpAssume(!same)
		diff := new(big.Int).Sub(s2, s1)
		if k2 == 1 {
			// the holders equalise the responses: second response for base R_0 in the commitment proof
			pu := pl[1].(*ProofU)
			pu.MUserResponses[0] = new(big.Int).Mul(c, diff)
			pu.SResponse = new(big.Int).Set(pl[0].SecretKeyResponse())
		} else {
			// ... or split the secret key of the disclosure proof into a disclosed part s2-s1
			// and a hidden remainder that equals the other holder's secret
			vpAssume(diff.Sign() > 0)
			pd := pl[1].(*ProofD)
			pd.ADisclosed[0] = diff
			pd.AResponses[0] = new(big.Int).Sub(pd.AResponses[0], new(big.Int).Mul(c, vpEff(diff, pk2)))
		}
	}
	ok := pl.Verify(keys, ctx, nonce, false, labels)
	if same || !sameLabel {
		if !collude {
			vpAssert("lists with one secret per label are accepted", ok)
		}
	} else {
		vpAssert("different secrets under one label are rejected", !ok)
	}
}

func init() {
	vpHarnesses["vpC03_O2"] = vpC03_O2
}

// C03-O2: three proofs, every pattern of equal/different secrets and every
// labelling over two labels (or no labels at all): the list is accepted exactly
// when all proofs that share a label (all proofs, without labels) were made with
// the same secret - also when the proofs sharing a label are not neighbours.
func vpC03_O2() {
	pk, sk := vpKeys(0, 3, 1024, false)
	secrets := []*big.Int{vpBigBits("s1", 255), vpBigBits("s2", 255), vpBigBits("s3", 255)}
	vpAssume(secrets[0].Cmp(secrets[1]) != 0 && secrets[0].Cmp(secrets[2]) != 0 && secrets[1].Cmp(secrets[2]) != 0)
	// which secret each proof uses: (0,0,0), (0,0,1), (0,1,0), (0,1,1), (0,1,2)
	patterns := [][3]int{{0, 0, 0}, {0, 0, 1}, {0, 1, 0}, {0, 1, 1}, {0, 1, 2}}
	pat := patterns[vpChoose("secretPattern", len(patterns))]
	ctx, nonce := vpBigBits("ctx", 256), vpBigBits("nonce", 80)
	var builders ProofBuilderList
	for i := 0; i < 3; i++ {
		kind := 0
		if i == 1 {
			kind = vpChoose("kind1", 2)
		}
		builders = append(builders, vpBuilder(i, kind, pk, sk, secrets[pat[i]], ctx))
	}
	keys := []*gabikeys.PublicKey{pk, pk, pk}
	pl, err := builders.BuildProofList(ctx, nonce, false)
	vpAssume(err == nil)
	vpAssume(pl[0].(interface{ Challenge() *big.Int }).Challenge().Sign() != 0)
	var labels []string
	lab := [3]int{}
	if vpBool("labelled") {
		names := []string{"x", "y"}
		lab = [3]int{0, vpChoose("label1", 2), vpChoose("label2", 2)}
		labels = []string{names[lab[0]], names[lab[1]], names[lab[2]]}
	}
	expect := true
	for i := 0; i < 3; i++ {
		for j := i + 1; j < 3; j++ {
			if lab[i] == lab[j] && pat[i] != pat[j] {
				expect = false
			}
		}
	}
	ok := pl.Verify(keys, ctx, nonce, false, labels)
	if expect {
		vpAssert("three proofs with one secret per label are accepted", ok)
	} else {
		vpAssert("three proofs with different secrets under one label are rejected", !ok)
	}
}

func init() {
	vpHarnesses["vpC02_O3"] = vpC02_O3
}

// C02-O3: what binds a proof list to its session is the challenge. With the
// real HashCommit (DER + SHA-256 modelled as an injective encoding under an
// injective hash; natively the real ones): the challenge over 0..2 arbitrary
// contributions changes whenever the context, the nonce, any contribution or
// the session flag changes - for both values of the flag.
func vpC02_O3() {
	n := vpChoose("ncontrib", 3)
	contribs := make([]*big.Int, n)
	for i := range contribs {
		contribs[i] = vpBig(fmt.Sprintf("contrib%d", i))
	}
	ctx, nonce := vpBig("ctx"), vpBig("nonce")
	issig := vpBool("issig")
	base := createChallenge(ctx, nonce, contribs, issig)
	other := vpBig("other")
	var changed *big.Int
	switch vpChoose("changed", 4) {
	case 0:
		vpAssume(other.Cmp(nonce) != 0)
		changed = createChallenge(ctx, other, contribs, issig)
	case 1:
		vpAssume(other.Cmp(ctx) != 0)
		changed = createChallenge(other, nonce, contribs, issig)
	case 2:
		vpAssume(n > 0)
		j := vpChoose("j", n)
		vpAssume(other.Cmp(contribs[j]) != 0)
		c2 := append([]*big.Int{}, contribs...)
		c2[j] = other
		changed = createChallenge(ctx, nonce, c2, issig)
	case 3:
		changed = createChallenge(ctx, nonce, contribs, !issig)
	}
	vpAssert("the challenge depends on context, nonce, every contribution and the session flag", changed.Cmp(base) != 0)
}

func init() {
	vpHarnesses["vpC02_O4"] = vpC02_O4
}

// C02-O4: range sub-proofs are part of what a session binds. A disclosure proof with
// a (true) range statement on hidden attribute ra - the highest hidden attribute or
// not - made by the real prover for session A verifies in session A; with its range
// sub-proof replaced by the one made for the same statement in another session B
// (other context or nonce) it does not; and a proof of session A that carries no
// range statement does not verify with session B's range sub-proof spliced in.
func vpC02_O4() {
	pk, sk := vpKeys(0, 4, 1024, false)
	cred := vpCredential(pk, sk, "a", 2, 256)
	ra := 1 + vpChoose("rangeAttr", 2)
	other := 3 - ra
	var disclosed []int
	if vpBool("otherDisclosed") {
		disclosed = []int{other}
	}
	bound := vpBig("bound")
	vpAssume(cred.Attributes[ra].Cmp(bound) >= 0 && new(big.Int).Sub(cred.Attributes[ra], bound).BitLen() <= 255)
	stmts := func() map[int][]*rangeproof.Statement {
		return map[int][]*rangeproof.Statement{ra: {{Sign: 1, Factor: 1, Bound: bound}}}
	}
	ctxA, nonceA := vpBigBits("ctx", 256), vpBigBits("nonce", 80)
	ctxB, nonceB := vpBigBits("ctxB", 256), vpBigBits("nonceB", 80)
	vpAssume(ctxA.Cmp(ctxB) != 0 || nonceA.Cmp(nonceB) != 0)
	proofB, err := cred.CreateDisclosureProof(disclosed, stmts(), false, ctxB, nonceB)
	vpAssume(err == nil && proofB.C.Sign() != 0)
	if vpBool("plainA") {
		plain, err := cred.CreateDisclosureProof(disclosed, nil, false, ctxA, nonceA)
		vpAssume(err == nil && plain.C.Sign() != 0)
		vpAssert("the plain proof verifies in its session", plain.Verify(pk, ctxA, nonceA, false))
		plain.RangeProofs = map[int][]*rangeproof.Proof{ra: proofB.RangeProofs[ra]}
		vpAssert("a range sub-proof of another session spliced into a plain proof is rejected", !plain.Verify(pk, ctxA, nonceA, false))
		return
	}
	proofA, err := cred.CreateDisclosureProof(disclosed, stmts(), false, ctxA, nonceA)
	vpAssume(err == nil && proofA.C.Sign() != 0)
	vpAssert("a proof with a range statement verifies in its session", proofA.Verify(pk, ctxA, nonceA, false))
	vpAssert("a proof with a range statement does not verify in another session", !proofA.Verify(pk, ctxB, nonceB, false))
	proofA.RangeProofs[ra] = proofB.RangeProofs[ra]
	vpAssert("a range sub-proof replaced by that of another session is rejected", !proofA.Verify(pk, ctxA, nonceA, false))
}

func init() {
	vpHarnesses["vpC03_O3"] = vpC03_O3
}

// C03-O3: colluding holders with secrets m and -m. A shows a credential (secret m), B makes
// an issuance commitment with the secret -m and the negated secret-key randomiser, both
// under the joint challenge: the two secret-key responses are each other's negatives - equal
// in magnitude, different as integers. Each proof is valid on its own; as a linked list
// (no labels, or one label) it must be rejected: linking is equality of the responses.
func vpC03_O3() {
	pk, sk := vpKeys(0, 3, 1024, false)
	pk2, _ := vpKeys(1, 3, 1024, false)
	m := vpBigBits("m", 255)
	vpAssume(m.Sign() > 0)
	ctx, nonce := vpBigBits("ctx", 256), vpBigBits("nonce", 80)
	bA := vpBuilder(0, 0, pk, sk, m, ctx)
	bB, err := NewCredentialBuilder(pk2, ctx, new(big.Int).Neg(m), vpBigBits("b1n2", 80), nil, nil)
	vpAssume(err == nil)
	r := vpBigBits("skRandomizer", 592)
	vpAssume(r.Sign() > 0)
	cA, err := bA.Commit(map[string]*big.Int{"secretkey": r})
	vpAssume(err == nil)
	cB, err := bB.Commit(map[string]*big.Int{"secretkey": new(big.Int).Neg(r)})
	vpAssume(err == nil)
	c := createChallenge(ctx, nonce, append(append([]*big.Int{}, cA...), cB...), false)
	vpAssume(c.Sign() != 0)
	pl := ProofList{bA.CreateProof(c), bB.CreateProof(c)}
	keys := []*gabikeys.PublicKey{pk, pk2}
	vpAssert("the two responses are each other's negatives", new(big.Int).Add(pl[0].SecretKeyResponse(), pl[1].SecretKeyResponse()).Sign() == 0)
	vpAssert("under different labels the list of the colluding holders verifies", pl.Verify(keys, ctx, nonce, false, []string{"a", "b"}))
	var labels []string
	if vpBool("oneLabel") {
		labels = []string{"ks", "ks"}
	}
	vpAssert("secrets m and -m with negated randomisers are not linked", !pl.Verify(keys, ctx, nonce, false, labels))
}
