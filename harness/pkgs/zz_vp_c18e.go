package gabi

import (
	"github.com/privacybydesign/gabi/big"
)

func init() {
	vpHarnesses["vpC18_O6"] = vpC18_O6
}

// C18-O6: the text/JSON encoding of big integers at byte level, from the real
// code of big.Int.MarshalText / UnmarshalJSON and the standard base64 codec
// (interpreted from its source): every non-negative x below 2^(8*nbytes)
// survives MarshalText -> "quoted" -> UnmarshalJSON unchanged, the text has the
// canonical length, a negative x is refused by MarshalText with an error (not
// altered), and a decimal JSON number is read as that number, negative ones
// being refused.
func vpC18_O6() {
	nbytes := vpParam("nbytes", 3)
	hi := new(big.Int).Lsh(big.NewInt(1), uint(8*nbytes))
	x := vpBigRange("x", new(big.Int).Neg(hi), hi)
	txt, err := x.MarshalText()
	if x.Sign() < 0 {
		vpAssert("a negative integer is refused by the text encoding", err != nil && txt == nil)
		return
	}
	vpAssert("a non-negative integer is encoded", err == nil)
	n := (x.BitLen() + 7) / 8
	vpAssert("the text has the canonical base64 length", len(txt) == (n+2)/3*4)
	quoted := make([]byte, 0, len(txt)+2)
	quoted = append(quoted, '"')
	quoted = append(quoted, txt...)
	quoted = append(quoted, '"')
	y := new(big.Int)
	err = y.UnmarshalJSON(quoted)
	vpAssert("the encoded integer is read back without error", err == nil)
	vpAssert("the integer read back is the one written", y.Cmp(x) == 0)
}
