package gabi

import (
	"fmt"

	"github.com/privacybydesign/gabi/big"
	"github.com/privacybydesign/gabi/gabikeys"
)

// vpCredential issues a credential over (secret, attributes...) with the real signing code.
func vpCredential(pk *gabikeys.PublicKey, sk *gabikeys.PrivateKey, prefix string, nattr int, bits int) *Credential {
	attrs := vpMessages(prefix, nattr+1, bits)
	sig, err := SignMessageBlock(sk, pk, attrs)
	vpAssume(err == nil)
	return &Credential{Signature: sig, Pk: pk, Attributes: attrs}
}

// vpDisclosureChoice picks an arbitrary subset of the non-secret attributes.
func vpDisclosureChoice(prefix string, nattr int) ([]int, []bool) {
	var disclosed []int
	isDisc := make([]bool, nattr+1)
	for i := 1; i <= nattr; i++ {
		if vpBool(fmt.Sprintf("%s%d", prefix, i)) {
			disclosed = append(disclosed, i)
			isDisc[i] = true
		}
	}
	return disclosed, isDisc
}

func vpSameBig(a, b *big.Int) bool { return a != nil && b != nil && a.Cmp(b) == 0 }
