package gabi

import (
	"fmt"

	"github.com/privacybydesign/gabi/big"
	"github.com/privacybydesign/gabi/gabikeys"
	"github.com/privacybydesign/gabi/internal/common"
)

func init() {
	vpHarnesses["vpC01_O1"] = vpC01_O1
	vpHarnesses["vpC01_O5"] = vpC01_O5
}

// C01-O1: correctResponseSizes is exactly
//   forall hidden i: 0 <= a_i <= 2^(LmCommit+1)-1  and  0 <= e <= 2^(LeCommit+1)-1
// for 0..3 hidden responses with arbitrary integer values, for all three
// default parameter sets.
func vpC01_O1() {
	keylens := []int{1024, 2048, 4096}
	params := gabikeys.DefaultSystemParameters[keylens[vpChoose("keylen", 3)]]
	pk := &gabikeys.PublicKey{Params: params}
	n := vpChoose("nresp", 4)
	p := &ProofD{AResponses: map[int]*big.Int{}, EResponse: vpBig("e")}
	okAll := make([]bool, 0, 4)
	maxA := new(big.Int).Sub(new(big.Int).Lsh(big.NewInt(1), params.LmCommit+1), big.NewInt(1))
	maxE := new(big.Int).Sub(new(big.Int).Lsh(big.NewInt(1), params.LeCommit+1), big.NewInt(1))
	for i := 0; i < n; i++ {
		r := vpBig(fmt.Sprintf("a%d", i))
		p.AResponses[i] = r
		okAll = append(okAll, r.Sign() >= 0, r.Cmp(maxA) <= 0)
	}
	okAll = append(okAll, p.EResponse.Sign() >= 0, p.EResponse.Cmp(maxE) <= 0)
	vpAssert("response size check is exact", p.correctResponseSizes(pk) == vpAll(okAll...))
}

// vpEff is the exponent the verifier uses for an attribute value (hash-on-use).
func vpEff(x *big.Int, pk *gabikeys.PublicKey) *big.Int {
	if x.BitLen() > int(pk.Params.Lm) {
		return common.IntHashSha256(x.Bytes())
	}
	return x
}

func vpAddTo(x *big.Int, d *big.Int) *big.Int { return new(big.Int).Add(x, d) }

// C01-O5: tamper families on an honest disclosure proof made by the real
// prover for a credential signed by the real signer. Whatever the adversary
// does (single-field and pairwise changes, splitting an attribute into a
// disclosed part and a hidden remainder, hiding a disclosed one), an accepted
// proof reports only signed values, never reports an index as both disclosed
// and hidden, and has in-range responses.
func vpC01_O5() {
	pk, sk := vpKeys(0, 6, 1024, false)
	k := vpParam("nattr", 2)
	cred := vpCredential(pk, sk, "a", k, 300)
	disclosed, isDisc := vpDisclosureChoice("disc", k)
	ctx, nonce := vpBigBits("ctx", 256), vpBigBits("nonce", 80)
	proof, err := cred.CreateDisclosureProof(disclosed, nil, false, ctx, nonce)
	vpAssume(err == nil)
	vpAssume(proof.C.Sign() != 0) // a zero challenge has probability 2^-256
	c := proof.C
	// history: the very proof object may have been verified once before it is altered (a verifier
	// that re-verifies an object it holds must not rely on what it derived from the earlier content)
	if vpBool("verifiedBeforeTamper") {
		vpAssert("the honest proof verifies before it is altered", proof.Verify(pk, ctx, nonce, false))
	}

	delta := vpBig("delta")
	x := vpBig("x")
	j := vpChoose("j", k+1) // index the tampering targets
	switch vpChoose("tamper", 12) {
	case 10: // a hidden response (the secret key's included) shifted by a multiple of the group order:
		// the verification equation still holds, the response leaves its range
		vpAssume(!isDisc[j])
		kk := vpIntRange("ordshift", -3, 3)
		vpAssume(kk != 0)
		proof.AResponses[j] = vpAddTo(proof.AResponses[j], new(big.Int).Mul(big.NewInt(int64(kk)), sk.Order))
	case 11: // the same for the response of e
		kk := vpIntRange("ordshift", -3, 3)
		vpAssume(kk != 0)
		proof.EResponse = vpAddTo(proof.EResponse, new(big.Int).Mul(big.NewInt(int64(kk)), sk.Order))
	case 0:
		vpAssume(delta.Sign() != 0)
		proof.C = vpAddTo(proof.C, delta)
	case 1:
		vpAssume(delta.Sign() != 0)
		proof.EResponse = vpAddTo(proof.EResponse, delta)
	case 2:
		vpAssume(delta.Sign() != 0)
		proof.VResponse = vpAddTo(proof.VResponse, delta)
	case 3:
		vpAssume(delta.Sign() != 0 && !isDisc[j])
		proof.AResponses[j] = vpAddTo(proof.AResponses[j], delta)
	case 4:
		vpAssume(delta.Sign() != 0 && isDisc[j])
		proof.ADisclosed[j] = vpAddTo(proof.ADisclosed[j], delta)
	case 5: // replace A by A*S^delta, re-balancing nothing
		vpAssume(delta.Sign() > 0)
		t := new(big.Int).Exp(pk.S, delta, pk.N)
		proof.A = t.Mul(t, proof.A).Mod(t, pk.N)
	case 6: // pairwise: change a disclosed value by delta and re-balance any one response by x
		vpAssume(delta.Sign() != 0 && isDisc[j])
		proof.ADisclosed[j] = vpAddTo(proof.ADisclosed[j], delta)
		switch vpChoose("rebalance", 3) {
		case 0:
			proof.AResponses[0] = vpAddTo(proof.AResponses[0], x)
		case 1:
			proof.VResponse = vpAddTo(proof.VResponse, x)
		case 2:
			proof.EResponse = vpAddTo(proof.EResponse, x)
		}
	case 7: // split hidden attribute j into a disclosed part x and a hidden remainder
		vpAssume(!isDisc[j])
		// (the verifier uses SHA-256(x) as the exponent when x is longer than Lm bits, so does the adversary)
		vpAssume(x.Sign() >= 0)
		proof.ADisclosed[j] = x
		proof.AResponses[j] = new(big.Int).Sub(proof.AResponses[j], new(big.Int).Mul(c, vpEff(x, pk)))
	case 9: // a disclosed value shifted by a multiple of the (secret) group order, upwards or downwards
		vpAssume(isDisc[j])
		kk := vpIntRange("ordshift", -3, 3)
		vpAssume(kk != 0)
		shift := new(big.Int).Mul(big.NewInt(int64(kk)), sk.Order)
		proof.ADisclosed[j] = vpAddTo(proof.ADisclosed[j], shift)
	case 8: // hide a disclosed attribute behind an arbitrary response
		vpAssume(isDisc[j])
		delete(proof.ADisclosed, j)
		proof.AResponses[j] = x
	}

	// a proof is accepted if either entry point accepts it: alone, or as a list of one
	viaList := vpBool("verifiedAsList")
	if viaList {
		if !(ProofList{proof}).Verify([]*gabikeys.PublicKey{pk}, ctx, nonce, false, nil) {
			return
		}
	} else if !proof.Verify(pk, ctx, nonce, false) {
		return
	}
	vpReach("some tampered proof is still accepted")
	// every response of an accepted proof lies inside the range the protocol allows
	maxA := new(big.Int).Sub(new(big.Int).Lsh(big.NewInt(1), pk.Params.LmCommit+1), big.NewInt(1))
	maxE := new(big.Int).Sub(new(big.Int).Lsh(big.NewInt(1), pk.Params.LeCommit+1), big.NewInt(1))
	inRange := proof.EResponse.Sign() >= 0 && proof.EResponse.Cmp(maxE) <= 0
	for _, r := range proof.AResponses {
		inRange = inRange && r.Sign() >= 0 && r.Cmp(maxA) <= 0
	}
	vpAssert("accepted proof: every response lies inside its range", inRange)
	for i, v := range proof.ADisclosed {
		vpAssert("accepted proof: disclosed index is a real attribute index", i >= 1 && i <= k)
		if i < 1 || i > k {
			continue
		}
		vpAssert("accepted proof: reported value is the signed value", vpSameBig(vpEff(v, pk), vpEff(cred.Attributes[i], pk)))
		vpAssert("accepted proof: no index both disclosed and hidden", proof.AResponses[i] == nil)
	}
}

func init() {
	vpHarnesses["vpC01_O6"] = vpC01_O6
}

// C01-O6: a "proof" made from public data only. With A a multiple of the modulus
// (0, N, 2N) every term that involves A vanishes modulo N; if the verifier does not
// insist on A being a unit, the reconstructed commitment is 0 whatever the
// responses and disclosed values are, and the challenge over (A, 0) can be computed
// by anyone. Such a proof, reporting arbitrary values, must be rejected.
func vpC01_O6() {
	pk, _ := vpKeys(0, 4, 1024, false)
	ctx, nonce := vpBigBits("ctx", 256), vpBigBits("nonce", 80)
	issig := vpBool("issig")
	A := new(big.Int).Mul(big.NewInt(int64(vpChoose("kA", 3))), pk.N)
	c := createChallenge(ctx, nonce, []*big.Int{A, big.NewInt(0)}, issig)
	vpAssume(c.Sign() != 0)
	proof := &ProofD{C: c, A: A, EResponse: vpBigBits("e", 400), VResponse: vpBigBits("v", 2000),
		AResponses: map[int]*big.Int{0: vpBigBits("r0", 500), 3: vpBigBits("r3", 500)},
		ADisclosed: map[int]*big.Int{1: vpBigBits("d1", 256), 2: vpBigBits("d2", 256)}}
	vpAssert("a proof with a degenerate A, made from public data only, is rejected", !proof.Verify(pk, ctx, nonce, issig))
	vpAssert("a list with such a proof is rejected", !ProofList{proof}.Verify([]*gabikeys.PublicKey{pk}, ctx, nonce, issig, nil))
}
