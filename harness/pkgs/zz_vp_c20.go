package gabi

import (
	"sync"
)

func init() {
	vpHarnesses["vpC20_O2"] = vpC20_O2
}

// C20-O2: two goroutines use one credential concurrently: both prepare the
// non-revocation cache (first-time preparation, i.e. the cache does not exist
// yet, or repeated preparation), or one prepares while the other consumes.
// Under every schedule (bounded preemptions) there is no data race, no
// deadlock, both operations succeed and the cache ends up usable.
func vpC20_O2() {
	s := vpRevocableCredential(0, "")
	cred := s.cred
	if vpBool("preparedBefore") {
		vpAssume(cred.NonrevPrepareCache() == nil)
	}
	consume := vpBool("secondConsumes")
	var wg sync.WaitGroup
	var err1, err2 error
	var b2 *NonRevocationProofBuilder
	wg.Add(2)
	go func() {
		defer wg.Done()
		err1 = cred.NonrevPrepareCache()
	}()
	go func() {
		defer wg.Done()
		if consume {
			b2, err2 = cred.nonrevConsumeBuilder()
		} else {
			err2 = cred.NonrevPrepareCache()
		}
	}()
	wg.Wait()
	vpAssert("concurrent cache operations succeed", err1 == nil && err2 == nil)
	if consume {
		vpAssert("consumer obtained a builder", b2 != nil && b2.commit != nil)
	}
	vpAssert("cache holds at most one prepared commitment", cred.nonrevCache == nil || len(cred.nonrevCache) <= 1)
}
