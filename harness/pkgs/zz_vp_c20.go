package gabi

import (
	"sync"

	"github.com/privacybydesign/gabi/big"
	"github.com/privacybydesign/gabi/gabikeys"
)

func init() {
	vpHarnesses["vpC20_O2"] = vpC20_O2
}

// C20-O2: two goroutines use one credential concurrently: both prepare the
// non-revocation cache (first-time preparation, i.e. the cache does not exist
// yet, or repeated preparation), or one prepares while the other consumes.
// Under every schedule (bounded preemptions) there is no data race, no
// deadlock, both operations succeed and the cache ends up usable.
func vpC20_O2() {
	s := vpRevocableCredential(0, "")
	cred := s.cred
	if vpBool("preparedBefore") {
		vpAssume(cred.NonrevPrepareCache() == nil)
	}
	consume := vpBool("secondConsumes")
	var wg sync.WaitGroup
	var err1, err2 error
	var b2 *NonRevocationProofBuilder
	wg.Add(2)
	go func() {
		defer wg.Done()
		err1 = cred.NonrevPrepareCache()
	}()
	go func() {
		defer wg.Done()
		if consume {
			b2, err2 = cred.nonrevConsumeBuilder()
		} else {
			err2 = cred.NonrevPrepareCache()
		}
	}()
	wg.Wait()
	vpAssert("concurrent cache operations succeed", err1 == nil && err2 == nil)
	if consume {
		vpAssert("consumer obtained a builder", b2 != nil && b2.commit != nil)
	}
	vpAssert("cache holds at most one prepared commitment", cred.nonrevCache == nil || len(cred.nonrevCache) <= 1)
}

func init() {
	vpHarnesses["vpC20_O4"] = vpC20_O4
}

// C20-O4: one credential used by two proving goroutines (whole disclosure
// proofs with non-revocation parts), or by one prover while the other
// goroutine prepares the cache. Under every schedule (bounded preemptions, a
// switch at every access to shared state): no data race, no deadlock, both
// proofs are produced, each verifies like a sequentially produced one, the two
// proofs share no randomised element, and the cache holds at most one commitment.
// (Attribute 1 is disclosed: with it hidden the known finding of C11 - the
// verifier's guess of the revocation attribute - would be met.)
func vpC20_O4() {
	s := vpRevocableCredential(0, "")
	cred := s.cred
	if vpBool("preparedBefore") {
		vpAssume(cred.NonrevPrepareCache() == nil)
	}
	secondPrepares := vpBool("secondPrepares")
	ctx, nonce1, nonce2 := vpBigBits("ctx", 256), vpBigBits("nonce1", 80), vpBigBits("nonce2", 80)
	var wg sync.WaitGroup
	var p1, p2 *ProofD
	var err1, err2 error
	wg.Add(2)
	go func() {
		defer wg.Done()
		p1, err1 = cred.CreateDisclosureProof([]int{1}, nil, true, ctx, nonce1)
	}()
	go func() {
		defer wg.Done()
		if secondPrepares {
			err2 = cred.NonrevPrepareCache()
		} else {
			p2, err2 = cred.CreateDisclosureProof([]int{1}, nil, true, ctx, nonce2)
		}
	}()
	wg.Wait()
	vpAssert("concurrent operations on one credential succeed", err1 == nil && err2 == nil)
	vpAssert("concurrently produced proof verifies", p1 != nil && p1.Verify(s.pk, ctx, nonce1, false))
	if !secondPrepares {
		vpAssert("concurrently produced proof verifies", p2 != nil && p2.Verify(s.pk, ctx, nonce2, false))
		vpAssert("concurrent proofs share no randomised signature element", !vpSameGroupElem(p1.A, p2.A))
		n1, n2 := p1.NonRevocationProof, p2.NonRevocationProof
		vpAssert("concurrent proofs carry their own non-revocation parts", n1 != nil && n2 != nil && n1 != n2)
		cu1, cu2 := new(big.Int).Mod(n1.Cu, s.pk.N), new(big.Int).Mod(n2.Cu, s.pk.N)
		vpAssert("concurrent proofs share no non-revocation commitment", !vpSameGroupElem(n1.Cr, n2.Cr) && !vpSameGroupElem(cu1, cu2))
		for j := range p1.AResponses {
			r1 := vpImplied(p1.AResponses[j], p1.C, cred.Attributes[j])
			r2 := vpImplied(p2.AResponses[j], p2.C, cred.Attributes[j])
			vpAssert("concurrent proofs share no attribute randomiser", r1.Cmp(r2) != 0)
		}
	}
	vpAssert("cache holds at most one prepared commitment", cred.nonrevCache == nil || len(cred.nonrevCache) <= 1)
}

func init() {
	vpHarnesses["vpC20_O6"] = vpC20_O6
}

// C20-O6: one public key (and one credential) shared by a verifier and a second
// goroutine that verifies another proof under the same key or produces a new
// proof from the credential. Under every schedule (bounded preemptions): no data
// race on the key, the credential or the proofs' shared signed accumulator, no
// deadlock, and every verdict is the sequential one (both honest proofs verify).
func vpC20_O6() {
	s := vpRevocableCredential(0, "")
	cred := s.cred
	ctx, nonce1, nonce2, nonce3 := vpBigBits("ctx", 256), vpBigBits("nonce1", 80), vpBigBits("nonce2", 80), vpBigBits("nonce3", 80)
	p1, err := cred.CreateDisclosureProof([]int{1}, nil, true, ctx, nonce1)
	vpAssume(err == nil)
	p2, err := cred.CreateDisclosureProof([]int{1}, nil, vpBool("nonrev2"), ctx, nonce2)
	vpAssume(err == nil)
	secondProves := vpBool("secondProves")
	// the verifiers' key object: the one the proofs were made with, or a freshly loaded one (exported
	// fields only, so that whatever the key caches on first use is filled during the concurrent uses)
	vpk := s.pk
	if vpBool("freshKeyObject") {
		k := s.pk
		vpk = &gabikeys.PublicKey{Counter: k.Counter, ExpiryDate: k.ExpiryDate, N: k.N, Z: k.Z, S: k.S, G: k.G, H: k.H, R: k.R,
			EpochLength: k.EpochLength, Params: k.Params, Issuer: k.Issuer, ECDSAString: k.ECDSAString, ECDSA: k.ECDSA}
	}
	var wg sync.WaitGroup
	var ok1, ok2 bool
	var p3 *ProofD
	var err3 error
	wg.Add(2)
	go func() {
		defer wg.Done()
		ok1 = p1.Verify(vpk, ctx, nonce1, false)
	}()
	go func() {
		defer wg.Done()
		if secondProves {
			p3, err3 = cred.CreateDisclosureProof([]int{1}, nil, true, ctx, nonce3)
		} else {
			ok2 = ProofList{p2}.Verify([]*gabikeys.PublicKey{vpk}, ctx, nonce2, false, nil)
		}
	}()
	wg.Wait()
	vpAssert("a concurrent verifier reaches the sequential verdict", ok1)
	if secondProves {
		vpAssert("a proof produced next to a verifier is produced and verifies", err3 == nil && p3 != nil && p3.Verify(s.pk, ctx, nonce3, false))
	} else {
		vpAssert("a concurrent verifier reaches the sequential verdict", ok2)
	}
}
