package revocation

func init() {
	vpHarnesses["vpC10_O1"] = vpC10_O1
}

func vpBytes(name string, n int) []byte {
	b := make([]byte, n)
	for i := range b {
		b[i] = vpByte(name + string(rune('0'+i)))
	}
	return b
}

// C10-O1: Hash.Equal is byte-string equality: equal iff same length and same
// bytes ("any hash that merely shares a prefix with the expected one is rejected").
func vpC10_O1() {
	max := vpParam("maxlen", 4)
	la, lb := vpChoose("lenA", max+1), vpChoose("lenB", max+1)
	a, b := Hash(vpBytes("a", la)), Hash(vpBytes("b", lb))
	ref := la == lb
	if ref {
		eq := make([]bool, la)
		for i := 0; i < la; i++ {
			eq[i] = a[i] == b[i]
		}
		ref = vpAll(eq...)
	}
	vpAssert("Hash.Equal is exact byte equality", a.Equal(b) == ref)
}
