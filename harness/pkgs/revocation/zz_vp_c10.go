package revocation

import (
	"encoding/json"
	"errors"

	"github.com/multiformats/go-multihash"
	"github.com/privacybydesign/gabi/big"
)

func init() {
	vpHarnesses["vpC10_O1"] = vpC10_O1
}

func vpBytes(name string, n int) []byte {
	b := make([]byte, n)
	for i := range b {
		b[i] = vpByte(name + string(rune('0'+i)))
	}
	return b
}

// C10-O1: Hash.Equal is byte-string equality: equal iff same length and same
// bytes ("any hash that merely shares a prefix with the expected one is rejected").
func vpC10_O1() {
	max := vpParam("maxlen", 4)
	la, lb := vpChoose("lenA", max+1), vpChoose("lenB", max+1)
	a, b := Hash(vpBytes("a", la)), Hash(vpBytes("b", lb))
	ref := la == lb
	if ref {
		eq := make([]bool, la)
		for i := 0; i < la; i++ {
			eq[i] = a[i] == b[i]
		}
		ref = vpAll(eq...)
	}
	vpAssert("Hash.Equal is exact byte equality", a.Equal(b) == ref)
}

func init() {
	vpHarnesses["vpC10_O3"] = vpC10_O3
	vpHarnesses["vpC10_O4"] = vpC10_O4
}

func vpCopyEvent(e *Event) *Event {
	return &Event{Index: e.Index, E: e.E, ParentHash: append(Hash{}, e.ParentHash...)}
}

// vpTransported simulates an update that arrived over the wire: the signed
// accumulator carries no cached plaintext, the events are fresh objects.
func vpTransported(u *Update) *Update {
	evs := make([]*Event, len(u.Events))
	for i, e := range u.Events {
		evs[i] = vpCopyEvent(e)
	}
	return &Update{
		SignedAccumulator: &SignedAccumulator{Data: u.SignedAccumulator.Data, PKCounter: u.SignedAccumulator.PKCounter},
		Events:            evs,
	}
}

// C10-O3: every single corruption of an authentic update (events 0..n of a
// history built by the issuer's real code) is rejected by Update.Verify and
// by Witness.Update - whether the witness is behind the message, at the same
// accumulator index or ahead of it - which leaves the witness unchanged; the
// uncorrupted transported update is accepted.
func vpC10_O3() {
	n := vpParam("nevents", 2)
	h := vpBuildHistory(n)
	other, otherSk := vpKeys(1, 1, 1024, true)
	_ = other
	// the witness is behind the update (index 0), at the same index (n), or ahead of it
	// (index n, update ending at n-1)
	wpos := vpChoose("witnessPosition", 3)
	widx, last := 0, n
	switch wpos {
	case 1:
		widx = n
	case 2:
		vpAssume(n >= 1)
		widx, last = n, n-1
	}
	wit := h.witness("E", widx, 0)
	upd := vpTransported(h.update(0, last))
	n = last
	k := vpChoose("k", n+1) // the event the corruption targets
	corrupt := vpParam("corruption", -1) // (a single family can be selected for debugging)
	if corrupt < 0 {
		corrupt = vpChoose("corruption", 15)
	}
	switch corrupt {
	case 0: // no corruption
	case 1: // another revoked value
		e2 := vpSmallPrime("e_other")
		vpAssume(e2.Cmp(upd.Events[k].E) != 0)
		upd.Events[k].E = e2
	case 2: // re-indexed event
		upd.Events[k].Index += 1 + uint64(vpChoose("shift", 2))
	case 3: // one byte of a parent hash changed
		pos := vpChoose("pos", 34)
		b := vpByte("newbyte")
		vpAssume(b != upd.Events[k].ParentHash[pos])
		upd.Events[k].ParentHash[pos] = b
	case 4: // truncated parent hash (still a well-formed multihash only if the length byte is adapted)
		upd.Events[k].ParentHash = upd.Events[k].ParentHash[:33]
		if vpBool("fixlen") {
			upd.Events[k].ParentHash[1] = 31
		}
	case 5: // extended parent hash
		upd.Events[k].ParentHash = append(upd.Events[k].ParentHash, vpByte("extra"))
		if vpBool("fixlen") {
			upd.Events[k].ParentHash[1] = 33
		}
	case 6: // dropped event that is not the first
		vpAssume(k >= 1)
		upd.Events = append(append([]*Event{}, upd.Events[:k]...), upd.Events[k+1:]...)
	case 7: // swapped neighbours
		vpAssume(k >= 1)
		upd.Events[k-1], upd.Events[k] = upd.Events[k], upd.Events[k-1]
	case 8: // duplicated event
		dup := append(append([]*Event{}, upd.Events[:k+1]...), upd.Events[k:]...)
		upd.Events = dup
	case 9: // invalid ECDSA signature
		upd.SignedAccumulator.Data = vpxCorrupt(upd.SignedAccumulator.Data)
	case 10: // wrong key counter: the (unsigned) label names any other key, key 0 included
		label := uint(vpChoose("label", 5))
		vpAssume(label != upd.SignedAccumulator.PKCounter)
		upd.SignedAccumulator.PKCounter = label
	case 11: // accumulator signed by another issuer key
		sacc, err := h.accs[n].Sign(otherSk)
		vpAssume(err == nil)
		upd.SignedAccumulator = &SignedAccumulator{Data: sacc.Data, PKCounter: h.pk.Counter}
	case 12: // authentic but older accumulator substituted
		vpAssume(n >= 1)
		sacc, err := h.accs[n-1].Sign(h.sk)
		vpAssume(err == nil)
		upd.SignedAccumulator = &SignedAccumulator{Data: sacc.Data, PKCounter: sacc.PKCounter}
	case 14: // re-framing (a double corruption): the first event's parent hash swallows the leading byte of its
		// value - hash input Index || ParentHash || E.Bytes() stays the same byte string
		// (the update starts at the first revocation event, whose parent hash is checked against nothing)
		vpAssume(k == 0 && last >= 1)
		upd = vpTransported(h.update(1, last))
		eb := upd.Events[0].E.Bytes()
		vpAssume(len(eb) == 2 && eb[1] != 0)
		upd.Events[0].ParentHash = append(append(Hash{}, upd.Events[0].ParentHash...), eb[0])
		upd.Events[0].E = new(big.Int).SetBytes(eb[1:])
	case 13: // inserted bogus event at the end
		bogus := &Event{Index: upd.Events[n].Index + 1, E: vpSmallPrime("e_bogus"), ParentHash: upd.Events[n].hash()}
		upd.Events = append(upd.Events, bogus)
	}
	expect := last // the accumulator the witness is valid against after an authentic message
	if widx > last {
		expect = widx
	}
	if (corrupt == 9 || corrupt == 10 || corrupt == 11) && vpBool("withoutEvents") {
		// an update message of length 0 whose signed accumulator is not authentic: a failed check
		// must not make a later check of the same object succeed
		upd.Events = nil
		_, first := upd.Verify(h.pk)
		vpAssert("corrupted update is rejected by Update.Verify", first != nil)
	}
	oldU, oldSacc, oldAcc, oldUpdated := wit.U, wit.SignedAccumulator, wit.SignedAccumulator.Accumulator, wit.Updated
	// the witness sees the message first (verification marks event lists as verified)
	uerr := wit.Update(h.pk, upd)
	_, verr := upd.Verify(h.pk)
	if corrupt == 0 {
		vpAssert("authentic transported update verifies", verr == nil)
		vpAssert("authentic transported update updates the witness", uerr == nil && vpWitnessValidAgainst(wit, h.accs[expect], h.pk))
		return
	}
	vpAssert("corrupted update is rejected by Update.Verify", verr != nil)
	vpAssert("corrupted update is rejected by Witness.Update", uerr != nil)
	vpAssert("rejected update leaves the witness unchanged", wit.U == oldU && wit.SignedAccumulator == oldSacc && wit.SignedAccumulator.Accumulator == oldAcc && wit.Updated == oldUpdated)
}

// C10-O4: Update.Prepend merges older events only if the merged chain
// verifies against the signed accumulator; on error the update is unchanged;
// no index combination makes it panic.
func vpC10_O4() {
	n := vpParam("nevents", 3)
	h := vpBuildHistory(n)
	i0 := vpChoose("i0", n+1)
	upd := h.update(i0, n)
	if vpBool("updateWithoutEvents") {
		// an update message of length 0: only the signed accumulator (verified by the receiver)
		sacc, err := h.accs[n].Sign(h.sk)
		vpAssume(err == nil)
		upd = &Update{SignedAccumulator: sacc}
		j0, j1 := vpChoose("j0", n+1), vpChoose("j1", n+1)
		vpAssume(j0 <= j1)
		evs := make([]*Event, 0, n+1)
		for j := j0; j <= j1; j++ {
			evs = append(evs, vpCopyEvent(h.events[j]))
		}
		err = upd.Prepend(NewEventList(evs...))
		if err == nil {
			vpAssert("accepted prepend yields a chain that verifies", NewEventList(upd.Events...).Verify(h.accs[n]) == nil)
		} else {
			vpAssert("failed prepend leaves the update unchanged", len(upd.Events) == 0)
		}
		return
	}
	j0, j1 := vpChoose("j0", n+1), vpChoose("j1", n+1)
	vpAssume(j0 <= j1)
	evs := make([]*Event, 0, n+1)
	for j := j0; j <= j1; j++ {
		evs = append(evs, vpCopyEvent(h.events[j]))
	}
	bad := vpBool("corruptOlderEvent")
	if bad {
		e2 := vpSmallPrime("e_other")
		vpAssume(e2.Cmp(evs[0].E) != 0)
		evs[0].E = e2
	}
	oldEvents, oldFirst := upd.Events, upd.Events[0]
	el := NewEventList(evs...)
	if vpBool("transported") {
		// as after JSON/CBOR transport: indices and parent hashes are recomputed by the
		// receiver and the list arrives marked as internally consistent
		el = &EventList{}
		el.uncompress(NewEventList(evs...).compress())
	}
	far := vpBool("farIndices")
	if far {
		// indices as an untrusted sender can put them on the wire: shifted by 2^63
		for _, ev := range el.Events {
			ev.Index += 1 << 63
		}
	}
	err := upd.Prepend(el)
	if far {
		vpAssert("an event list with far-away indices is refused with an error", err != nil && len(upd.Events) == len(oldEvents) && upd.Events[0] == oldFirst)
		return
	}
	// the list handed in stays the caller's: nothing is written behind its end (where
	// a later append by the caller would overwrite what the update now holds)
	untouched := true
	for _, ev := range el.Events[len(el.Events):cap(el.Events)] {
		untouched = untouched && ev == nil
	}
	vpAssert("prepend does not write into the caller's event list", untouched)
	if err != nil {
		vpAssert("failed prepend leaves the update unchanged", len(upd.Events) == len(oldEvents) && upd.Events[0] == oldFirst)
		return
	}
	vpAssert("accepted prepend yields a chain that verifies", NewEventList(upd.Events...).Verify(h.accs[n]) == nil)
	vpAssert("accepted prepend starts at the older events", upd.Events[0].Index == uint64(j0))
	vpAssert("prepend of corrupted older events is refused", !bad)
}

func init() {
	vpHarnesses["vpC10_O5"] = vpC10_O5
}

// C10-O5: an event list that arrived over the wire (EventList decoded by
// uncompress: indices and parent hashes recomputed, the list marked internally
// consistent) and lists flattened from such parts, verified with EventList.Verify
// against an accumulator: accepted exactly when the list ends in the event whose
// hash that accumulator carries and has no gap. A list ending elsewhere, a list of
// forged values and a flattened list with a missing part are refused.
func vpC10_O5() {
	n := vpParam("nevents", 3)
	h := vpBuildHistory(n)
	j0, j1 := vpChoose("j0", n+1), vpChoose("j1", n+1)
	vpAssume(j0 <= j1)
	against := vpChoose("against", n+1)
	mk := func(a, b int, forge bool) *EventList {
		evs := make([]*Event, 0, b-a+1)
		for j := a; j <= b; j++ {
			evs = append(evs, vpCopyEvent(h.events[j]))
		}
		if forge {
			e2 := vpSmallPrime("e_forged")
			vpAssume(e2.Cmp(evs[len(evs)-1].E) != 0)
			evs[len(evs)-1].E = e2
		}
		el := &EventList{ComputeProduct: true}
		el.uncompress(NewEventList(evs...).compress())
		return el
	}
	switch vpChoose("shape", 4) {
	case 3: // re-framed in transit (CBOR carries the first parent hash as raw bytes): the first event's
		// parent hash swallows the leading byte of its value; Index || ParentHash || E.Bytes() is the same
		// byte string, so every hash of the chain is unchanged - but the list now names another value
		vpAssume(j0 >= 1)
		c := mk(j0, j1, false).compress()
		eb := c.E[0].Bytes()
		vpAssume(len(eb) == 2 && eb[1] != 0)
		c.ParentHash = append(append(Hash{}, c.ParentHash...), eb[0])
		c.E[0] = new(big.Int).SetBytes(eb[1:])
		el := &EventList{ComputeProduct: true}
		el.uncompress(c)
		err := el.Verify(h.accs[against])
		vpAssert("a transported list whose first event was re-framed is refused", err != nil)
	case 0: // one transported list j0..j1
		err := mk(j0, j1, false).Verify(h.accs[against])
		vpAssert("a transported event list verifies exactly against the accumulator it ends in", (err == nil) == (against == j1))
	case 1: // its last value replaced by another prime
		vpAssume(j1 > 0)
		err := mk(j0, j1, true).Verify(h.accs[against])
		vpAssert("a transported list with a forged value is refused", err != nil)
	case 2: // flattened from two parts j0..k and k2..j1
		k, k2 := vpChoose("k", n+1), vpChoose("k2", n+1)
		vpAssume(j0 <= k && k < k2 && k2 <= j1)
		fl, err := FlattenEventLists([]*EventList{mk(k2, j1, false), mk(j0, k, false)})
		vpAssume(err == nil)
		err = fl.Verify(h.accs[against])
		vpAssert("a flattened list verifies exactly when it has no gap and ends in the accumulator's event", (err == nil) == (against == j1 && k2 == k+1))
	}
}

func init() {
	vpHarnesses["vpC10_O6"] = vpC10_O6
}

// vpxWireSacc: a signed accumulator as it arrives after JSON transport (natively the real
// encoding/json round trip, symbolically the structural copy that follows the struct tags).
func vpxWireSacc(s *SignedAccumulator) (*SignedAccumulator, bool) {
	bts, err := json.Marshal(s)
	if err != nil {
		return nil, false
	}
	out := &SignedAccumulator{}
	if err := json.Unmarshal(bts, out); err != nil {
		return nil, false
	}
	return out, true
}

// C10-O6: what the receiver trusts is the signature, not anything that travels next to it.
// A signed accumulator that the sender had already verified (its plaintext cached in the
// object) goes through JSON transport; in transit its signature is damaged, or the key
// counter changed. The receiver's Update.Verify, Witness.Update and Witness.Verify refuse
// it; undamaged it is accepted.
func vpC10_O6() {
	n := vpParam("nevents", 2)
	h := vpBuildHistory(n)
	upd := h.update(0, n)
	_, err := upd.SignedAccumulator.UnmarshalVerify(h.pk) // the sender has looked at it
	vpAssume(err == nil)
	sacc, ok := vpxWireSacc(upd.SignedAccumulator)
	vpAssert("a signed accumulator can be transported", ok)
	if !ok {
		return
	}
	damage := vpChoose("damage", 3)
	switch damage {
	case 1:
		sacc.Data = vpxCorrupt(sacc.Data)
	case 2:
		sacc.PKCounter = sacc.PKCounter + 1
	}
	evs := make([]*Event, len(upd.Events))
	for i, e := range upd.Events {
		evs[i] = vpCopyEvent(e)
	}
	received := &Update{SignedAccumulator: sacc, Events: evs}
	_, verr := received.Verify(h.pk)
	wit := h.witness("E", 0, 0)
	oldU, oldSacc := wit.U, wit.SignedAccumulator
	uerr := wit.Update(h.pk, received)
	w2 := &Witness{U: wit.U, E: wit.E, SignedAccumulator: sacc}
	if damage == 0 {
		vpAssert("the undamaged transported update is accepted", verr == nil && uerr == nil)
		return
	}
	vpAssert("an update whose signed accumulator was damaged in transit is refused", verr != nil && uerr != nil)
	vpAssert("a refused update leaves the witness unchanged", wit.U == oldU && wit.SignedAccumulator == oldSacc)
	vpAssert("a witness carrying the damaged signed accumulator does not verify", w2.Verify(h.pk) != nil)
}

func init() {
	vpHarnesses["vpC18_O8"] = vpC18_O8
}

// vpTransportUpdate: an update message through its JSON form. Natively the real
// encoding/json round trip. Symbolically the transport is composed from the type's own
// code - Update.compress, EventList.compress, EventList.uncompress, Update.uncompress -
// around the text codec of the one hash that travels, which is taken by its contract:
// a hash survives exactly if it is a well-formed multihash.
func vpTransportUpdate(u *Update) (*Update, error) {
	if vpNative() {
		bts, err := json.Marshal(u)
		if err != nil {
			return nil, err
		}
		out := &Update{}
		if err := json.Unmarshal(bts, out); err != nil {
			return nil, err
		}
		return out, nil
	}
	cu := u.compress()
	sacc := cu.SignedAccumulator
	if sacc != nil {
		sacc = &SignedAccumulator{Data: sacc.Data, PKCounter: sacc.PKCounter}
	}
	wire := &compressedUpdate{SignedAccumulator: sacc}
	if cu.E != nil {
		ce := cu.E.compress()
		if _, err := multihash.Decode(ce.ParentHash); err != nil {
			return nil, errors.New("parent hash does not survive its text encoding")
		}
		el := &EventList{}
		el.uncompress(&compressedEventList{Index: ce.Index, ParentHash: append(Hash{}, ce.ParentHash...), E: ce.E})
		wire.E = el
	}
	out := &Update{}
	out.uncompress(wire)
	return out, nil
}

// C18-O8: update messages survive JSON transport with unchanged meaning, with every
// optional part present or absent: updates over any window of a history and updates
// without events (signed accumulator only, nil or empty event list) are read back
// without error and verify exactly as the original did, with the same events.
func vpC18_O8() {
	n := vpParam("nevents", 2)
	h := vpBuildHistory(n)
	i0, i1 := vpChoose("i0", n+1), vpChoose("i1", n+1)
	vpAssume(i0 <= i1)
	upd := h.update(i0, i1)
	switch vpChoose("events", 3) {
	case 1:
		upd = &Update{SignedAccumulator: upd.SignedAccumulator}
	case 2:
		upd = &Update{SignedAccumulator: upd.SignedAccumulator, Events: []*Event{}}
	}
	_, err0 := upd.Verify(h.pk)
	vpAssert("the update verifies before transport", err0 == nil)
	got, err := vpTransportUpdate(upd)
	vpAssert("an update message is read back from its own JSON form", err == nil && got != nil)
	if err != nil || got == nil {
		return
	}
	acc, err := got.Verify(h.pk)
	vpAssert("the transported update verifies as the original did", err == nil && acc != nil && acc.Index == h.accs[i1].Index)
	same := len(got.Events) == len(upd.Events)
	if same {
		for k := range got.Events {
			same = same && got.Events[k].Index == upd.Events[k].Index && got.Events[k].E.Cmp(upd.Events[k].E) == 0
		}
	}
	vpAssert("the transported update carries the same events", same)
}
