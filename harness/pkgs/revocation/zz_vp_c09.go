package revocation

import (
	"fmt"

	"github.com/privacybydesign/gabi/big"
	"github.com/privacybydesign/gabi/gabikeys"
	"github.com/privacybydesign/gabi/signed"
)

func init() {
	vpHarnesses["vpC09_O1"] = vpC09_O1
	vpHarnesses["vpC09_O4"] = vpC09_O4
	vpHarnesses["vpC09_O5"] = vpC09_O5
}

// vpxCorrupt invalidates the signature of a signed message.
func vpxCorrupt(m signed.Message) signed.Message {
	c := append(signed.Message{}, m...)
	c[len(c)-1] ^= 1
	return c
}

type vpHistory struct {
	pk     *gabikeys.PublicKey
	sk     *gabikeys.PrivateKey
	accs   []*Accumulator
	events []*Event
	es     []*big.Int // es[k] is the value revoked by event k (k >= 1)
}

func vpSmallPrime(name string) *big.Int {
	// odd primes below 2^16: large enough for the algebra, small enough for Event.hashBytes
	return vpPrime(name, big.NewInt(3), big.NewInt(65521))
}

// vpBuildHistory runs the issuer's real code: a fresh accumulator followed by n revocations.
func vpBuildHistory(n int) *vpHistory {
	h := &vpHistory{}
	h.pk, h.sk = vpKeys(0, 1, 1024, true)
	if vpParam("keycounters", 0) == 1 {
		// the issuer's key is key number 3 rather than 0 (copies: natively the key objects are shared)
		ctr := uint(3)
		pk2, sk2 := *h.pk, *h.sk
		pk2.Counter, sk2.Counter = ctr, ctr
		h.pk, h.sk = &pk2, &sk2
	}
	upd, err := NewAccumulator(h.sk)
	vpAssume(err == nil)
	acc, err := upd.SignedAccumulator.UnmarshalVerify(h.pk)
	vpAssume(err == nil)
	h.accs = []*Accumulator{acc}
	h.events = []*Event{upd.Events[0]}
	h.es = []*big.Int{nil}
	for k := 1; k <= n; k++ {
		e := vpSmallPrime(fmt.Sprintf("e%d", k))
		for j := 1; j < k; j++ {
			vpAssume(e.Cmp(h.es[j]) != 0) // a value is revoked once
		}
		na, ev, err := h.accs[k-1].Remove(h.sk, e, h.events[k-1])
		vpAssume(err == nil)
		h.accs = append(h.accs, na)
		h.events = append(h.events, ev)
		h.es = append(h.es, e)
	}
	return h
}

func (h *vpHistory) update(i0, i1 int) *Update {
	u, err := NewUpdate(h.sk, h.accs[i1], h.events[i0:i1+1])
	vpAssert("issuer can build the update", err == nil)
	return u
}

// witness issues a witness for E against accumulator w; revokedAt = 0 means E is never revoked.
func (h *vpHistory) witness(name string, w, revokedAt int) *Witness {
	var E *big.Int
	if revokedAt > 0 {
		E = h.es[revokedAt]
	} else {
		E = vpSmallPrime(name)
		for j := 1; j < len(h.es); j++ {
			vpAssume(E.Cmp(h.es[j]) != 0)
		}
	}
	wit, err := newWitness(h.sk, h.accs[w], E)
	vpAssume(err == nil)
	sacc, err := h.accs[w].Sign(h.sk)
	vpAssume(err == nil)
	wit.SignedAccumulator = sacc
	vpAssert("fresh witness is valid", wit.Verify(h.pk) == nil)
	return wit
}

func vpWitnessValidAgainst(wit *Witness, acc *Accumulator, pk *gabikeys.PublicKey) bool {
	return verify(wit.U, wit.E, acc, pk) && wit.SignedAccumulator.Accumulator.Index == acc.Index
}

// C09-O1: one update step from any point of any history of n revocations: a
// witness issued at index w (revoked at some later event or never) receives
// the update with events i0..i1. The outcome is exactly what the abstract
// model says, a non-revoked witness ends valid against the newest accumulator
// it was shown, never moves backwards, a revoked one is reported revoked, and
// a failed update leaves the witness untouched.
func vpC09_O1() {
	n := vpParam("nevents", 2)
	h := vpBuildHistory(n)
	w := vpChoose("w", n+1)
	revokedAt := vpChoose("revokedAt", n+1)
	vpAssume(revokedAt == 0 || revokedAt > w)
	wit := h.witness("E", w, revokedAt)
	i0, i1 := vpChoose("i0", n+1), vpChoose("i1", n+1)
	vpAssume(i0 <= i1)
	upd := h.update(i0, i1)

	oldU, oldE, oldSacc, oldIndex := wit.U, wit.E, wit.SignedAccumulator, wit.SignedAccumulator.Accumulator.Index
	oldUpdated := wit.Updated
	err := wit.Update(h.pk, upd)
	newIndex := wit.SignedAccumulator.Accumulator.Index
	vpAssert("witness never moves backwards", newIndex >= oldIndex)
	if err != nil {
		vpAssert("failed update leaves the witness unchanged", wit.U == oldU && wit.E == oldE && wit.SignedAccumulator == oldSacc && wit.Updated == oldUpdated)
	}
	switch {
	case i1 <= w:
		vpAssert("old update is a no-op without error", err == nil && wit.U == oldU && newIndex == oldIndex)
	case i0 > w+1:
		vpAssert("update with a gap is refused", err != nil)
	case revokedAt > 0 && revokedAt <= i1:
		vpAssert("revoked witness is reported revoked", err == ErrorRevoked)
	default:
		vpAssert("applicable update succeeds", err == nil)
		vpAssert("updated witness is valid against the newest accumulator", vpWitnessValidAgainst(wit, h.accs[i1], h.pk))
		vpAssert("witness verifies", wit.Verify(h.pk) == nil)
	}
}

// C09-O4: one Update object applied to two witnesses that stand at different
// indices (and re-applied to the first): every non-revoked witness ends valid
// against the newest accumulator.
func vpC09_O4() {
	n := vpParam("nevents", 2)
	h := vpBuildHistory(n)
	w1, w2 := vpChoose("w1", n+1), vpChoose("w2", n+1)
	witA := h.witness("EA", w1, 0)
	witB := h.witness("EB", w2, 0)
	vpAssume(witA.E.Cmp(witB.E) != 0)
	upd := h.update(0, n) // the complete chain, shared by both holders
	errA := witA.Update(h.pk, upd)
	errB := witB.Update(h.pk, upd)
	vpAssert("first witness updated", errA == nil && vpWitnessValidAgainst(witA, h.accs[n], h.pk))
	vpAssert("second witness updated with the same update object", errB == nil && vpWitnessValidAgainst(witB, h.accs[n], h.pk))
	errA2 := witA.Update(h.pk, upd)
	vpAssert("re-applying the update is harmless", errA2 == nil && vpWitnessValidAgainst(witA, h.accs[n], h.pk))
}

// C09-O5: an update that carries a signed accumulator but no events (what a holder
// receives when the issuer only re-signs, or when the events were cut off): the
// witness either stays as it was or ends valid against the accumulator it now
// carries; it never adopts an accumulator its U does not match.
func vpC09_O5() {
	n := vpParam("nevents", 2)
	h := vpBuildHistory(n)
	w := vpChoose("w", n+1)
	wit := h.witness("E", w, 0)
	i1 := vpChoose("i1", n+1)
	full := h.update(i1, i1)
	upd := &Update{SignedAccumulator: full.SignedAccumulator}
	if vpBool("emptySlice") {
		upd.Events = []*Event{}
	}
	oldU, oldSacc := wit.U, wit.SignedAccumulator
	err := wit.Update(h.pk, upd)
	cur := wit.SignedAccumulator.Accumulator
	vpAssert("witness never moves backwards", cur.Index >= h.accs[w].Index)
	vpAssert("the witness still verifies against the accumulator it carries", wit.Verify(h.pk) == nil && verify(wit.U, wit.E, cur, h.pk))
	if err != nil || i1 != w {
		vpAssert("an event-less update for another index changes nothing", wit.U == oldU && wit.SignedAccumulator == oldSacc)
	}
}

func init() {
	vpHarnesses["vpC09_O6"] = vpC09_O6
}

// C09-O6: batching through Prepend. The holder's update message carries the
// events i0..n; the older events j0..i0-1 arrive later as an event list - in
// memory or over the wire (decoded by uncompress, with or without the
// ComputeProduct option) - and are prepended. The one extended update object is
// then applied to a witness at any index (revoked at some event or never) and to
// a second, never revoked witness at any index: a non-revoked witness behind the
// message ends valid against the newest accumulator, a revoked one is reported
// as revoked, a failed update leaves the witness as it was.
func vpC09_O6() {
	n := vpParam("nevents", 3)
	h := vpBuildHistory(n)
	i0 := 1 + vpChoose("i0", n) // 1..n
	j0 := vpChoose("j0", n)
	vpAssume(j0 < i0)
	upd := h.update(i0, n)
	evs := make([]*Event, 0, n+1)
	for j := j0; j < i0; j++ {
		evs = append(evs, vpCopyEvent(h.events[j]))
	}
	el := NewEventList(evs...)
	if vpBool("transported") {
		el = &EventList{ComputeProduct: vpBool("computeProduct")}
		el.uncompress(NewEventList(evs...).compress())
	}
	vpAssert("older events of the issuer's chain can be prepended", upd.Prepend(el) == nil)
	w := vpChoose("w", n+1)
	revokedAt := vpChoose("revokedAt", n+1) // 0: never
	vpAssume(revokedAt == 0 || revokedAt > w)
	wit := h.witness("E", w, revokedAt)
	w2 := vpChoose("w2", n+1)
	wit2 := h.witness("E2", w2, 0)
	vpAssume(wit.E.Cmp(wit2.E) != 0)
	for round, x := range []struct {
		wit       *Witness
		at        int
		revokedAt int
	}{{wit, w, revokedAt}, {wit2, w2, 0}} {
		oldU, oldSacc := x.wit.U, x.wit.SignedAccumulator
		err := x.wit.Update(h.pk, upd)
		covered := x.at+1 >= j0 // the extended message starts at or before the witness' next event
		if x.at == n {
			vpAssert("a witness that is up to date stays valid", err == nil && vpWitnessValidAgainst(x.wit, h.accs[n], h.pk))
		} else if !covered {
			vpAssert("a failed update leaves the witness as it was", err != nil && x.wit.U == oldU && x.wit.SignedAccumulator == oldSacc)
		} else if x.revokedAt != 0 {
			vpAssert("a revoked witness is reported as revoked by the extended update", err == ErrorRevoked)
			vpAssert("a failed update leaves the witness as it was", x.wit.U == oldU && x.wit.SignedAccumulator == oldSacc)
		} else {
			vpAssert("a non-revoked witness follows the extended update to the newest accumulator", err == nil && vpWitnessValidAgainst(x.wit, h.accs[n], h.pk))
		}
		_ = round
	}
}
