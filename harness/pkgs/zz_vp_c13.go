package gabi

import (
	"fmt"
	"github.com/privacybydesign/gabi/big"
	"github.com/privacybydesign/gabi/rangeproof"
)

func init() {
	vpHarnesses["vpC13_O1"] = vpC13_O1
	vpHarnesses["vpC13_O2"] = vpC13_O2
	vpHarnesses["vpC12_O3"] = vpC12_O3
}

var vpTable16 *rangeproof.SquaresTable

func vpSquaresTable() *rangeproof.SquaresTable {
	if vpTable16 == nil {
		vpTable16 = rangeproof.GenerateSquaresTable(16)
	}
	return vpTable16
}

// vpStatementTrue: sign*(factor*m - bound) >= 0 and the difference is below 2^bits.
func vpDifference(sign int, factor uint, bound, m *big.Int) *big.Int {
	d := new(big.Int).Mul(new(big.Int).SetUint64(uint64(factor)), m)
	d.Sub(d, bound)
	if sign == -1 {
		d.Neg(d)
	}
	return d
}

func vpHoldsStatement(typ rangeproof.StatementType, factor uint, bound, m *big.Int) bool {
	fm := new(big.Int).Mul(new(big.Int).SetUint64(uint64(factor)), m)
	if typ == rangeproof.GreaterOrEqual {
		return fm.Cmp(bound) >= 0
	}
	return fm.Cmp(bound) <= 0
}

// C13-O1 (four squares): for every hidden attribute value m < 2^256, factor
// 1..8, sign +-1 and bound such that the statement is true and the difference
// is below 2^256, the real prover creates a proof that verifies and that the
// library reports as proving the statement.
func vpC13_O1() {
	pk, sk := vpKeys(0, 3, 1024, false)
	cred := vpCredential(pk, sk, "a", 1, 256)
	m := cred.Attributes[1]
	sign := 1 - 2*vpChoose("neg", 2)
	factor := uint(1 + vpChoose("factor", vpParam("maxfactor", 8)))
	bound := vpBig("bound")
	diff := vpDifference(sign, factor, bound, m)
	vpAssume(diff.Sign() >= 0 && diff.BitLen() <= 255)
	stmt := &rangeproof.Statement{Sign: sign, Factor: factor, Bound: bound}
	ctx, nonce := vpBigBits("ctx", 256), vpBigBits("nonce", 80)
	proof, err := cred.CreateDisclosureProof(nil, map[int][]*rangeproof.Statement{1: {stmt}}, false, ctx, nonce)
	vpAssert("true four-square statement is provable", err == nil && proof != nil)
	if err != nil {
		return
	}
	vpAssert("range proof verifies", proof.Verify(pk, ctx, nonce, false))
	vpAssert("one range proof for attribute 1", len(proof.RangeProofs) == 1 && len(proof.RangeProofs[1]) == 1)
	vpAssert("library reports the statement as proven", proof.RangeProofs[1][0].Proves(stmt))
}

// C13-O2 (three squares, table up to 16): every true statement m >= bound or
// m <= bound whose difference is inside the table (0..16) is provable, verifies
// and is reported as proven; the first difference outside it is refused with an
// error (no panic).
func vpC13_O2() {
	pk, sk := vpKeys(0, 3, 1024, false)
	cred := vpCredential(pk, sk, "a", 1, 256)
	m := cred.Attributes[1]
	sign := 1 - 2*vpChoose("neg", 2)
	delta := vpIntRange("delta", 0, 18) // |m - bound|: the whole table and the first values outside it
	bound := new(big.Int).Sub(m, big.NewInt(int64(sign*delta)))
	vpAssume(bound.Sign() >= 0)
	stmt := &rangeproof.Statement{Sign: sign, Factor: 1, Bound: bound, Splitter: vpSquaresTable()}
	ctx, nonce := vpBigBits("ctx", 256), vpBigBits("nonce", 80)
	proof, err := cred.CreateDisclosureProof(nil, map[int][]*rangeproof.Statement{1: {stmt}}, false, ctx, nonce)
	// (m <= bound is proven as 4m <= 4*bound-2, which shifts the table by one for Sign = -1)
	if (sign == 1 && delta >= 17) || (sign == -1 && delta >= 18) {
		vpAssert("a difference outside the table is refused with an error", err != nil && proof == nil)
		return
	}
	vpAssert("true three-square statement is provable", err == nil && proof != nil)
	if err != nil {
		return
	}
	vpAssert("three-square range proof verifies", proof.Verify(pk, ctx, nonce, false))
	vpAssert("library reports the three-square statement as proven", proof.RangeProofs[1][0].Proves(stmt))
}

// C12-O3: range proofs inside a disclosure proof. An honest proof with a
// (true) statement on hidden attribute 1 of a credential (secret, a1, a2) is
// tampered with: the range proof is moved or copied to another index (hidden,
// disclosed, non-existent, negative), or its descriptor is changed. Whenever
// the result is accepted, every carried range proof sits at a hidden index, is
// bound to that attribute's response and reports a statement that is true of
// the signed value.
func vpC12_O3() {
	pk, sk := vpKeys(0, 4, 1024, false)
	cred := vpCredential(pk, sk, "a", 2, 256)
	bound := vpBig("bound")
	vpAssume(cred.Attributes[1].Cmp(bound) >= 0 && vpDifference(1, 1, bound, cred.Attributes[1]).BitLen() <= 255)
	stmt := &rangeproof.Statement{Sign: 1, Factor: 1, Bound: bound}
	var disclosed []int
	if vpBool("disc2") {
		disclosed = []int{2}
	}
	ctx, nonce := vpBigBits("ctx", 256), vpBigBits("nonce", 80)
	proof, err := cred.CreateDisclosureProof(disclosed, map[int][]*rangeproof.Statement{1: {stmt}}, false, ctx, nonce)
	vpAssume(err == nil)
	vpAssume(proof.C.Sign() != 0) // a zero challenge has probability 2^-256
	rp := proof.RangeProofs[1][0]
	d := vpBig("d")
	vpAssume(d.Sign() != 0)
	// history: the very proof object may have been verified once before it is altered
	// (a verifier that re-verifies an object it holds must not rely on what it derived earlier)
	if vpBool("verifiedBeforeAlteration") {
		vpAssert("the honest proof verifies", proof.Verify(pk, ctx, nonce, false))
	}
	targets := []int{2, 3, 7, -1, 0}
	switch vpChoose("tamper", 5) {
	case 0: // untouched
	case 1: // moved to another index
		delete(proof.RangeProofs, 1)
		proof.RangeProofs[targets[vpChoose("target", 5)]] = []*rangeproof.Proof{rp}
	case 2: // copied to another index
		proof.RangeProofs[targets[vpChoose("target", 5)]] = []*rangeproof.Proof{rp}
	case 3: // bound changed
		rp.K = new(big.Int).Add(rp.K, d)
	case 4: // a second, identical proof for the same attribute
		proof.RangeProofs[1] = append(proof.RangeProofs[1], rp)
	}
	if !proof.Verify(pk, ctx, nonce, false) {
		return
	}
	for index, rps := range proof.RangeProofs {
		hidden := proof.AResponses[index] != nil && index >= 1 && index <= 2
		vpAssert("accepted proof: range proofs only at hidden attribute indices", hidden)
		if !hidden {
			continue
		}
		for _, r := range rps {
			vpAssert("accepted proof: range proof is bound to the attribute's response", r.MResponse != nil && r.MResponse.Cmp(proof.AResponses[index]) == 0)
			typ, factor, b := r.ProvenStatement()
			vpAssert("accepted proof: reported statement is true of the signed value", vpHoldsStatement(typ, factor, b, cred.Attributes[index]))
		}
	}
}

func init() {
	vpHarnesses["vpC12_O4"] = vpC12_O4
}

// C12-O4: a prover who knows the credential but not a square decomposition
// attaches a range proof with degenerate commitments C_i = 0 (or N): every
// reconstructed commitment then collapses to 0 whatever K and the responses
// are, so the prover can hash zeros into the challenge. If such a proof is
// accepted its statement must still be true of the signed value.
func vpC12_O4() {
	pk, sk := vpKeys(0, 3, 1024, false)
	cred := vpCredential(pk, sk, "a", 1, 256)
	ctx, nonce := vpBigBits("ctx", 256), vpBigBits("nonce", 80)
	b, err := cred.CreateDisclosureProofBuilder(nil, nil, false)
	vpAssume(err == nil)
	commit, err := b.Commit(map[string]*big.Int{"secretkey": vpBigBits("r0", 592)})
	vpAssume(err == nil)
	n := 3 + vpChoose("fourSquares", 2)
	zero := big.NewInt(0)
	if vpBool("useN") {
		zero = pk.N
	}
	contribs := append([]*big.Int{}, commit...)
	for i := 0; i < 1+n; i++ {
		contribs = append(contribs, big.NewInt(0))
	}
	c := createChallenge(ctx, nonce, contribs, false)
	vpAssume(c.Sign() != 0)
	proof := b.CreateProof(c).(*ProofD)
	K := vpBigBits("K", 300)
	rp := &rangeproof.Proof{V5Response: big.NewInt(1), Ld: 128, Sign: 1, A: 1, K: K}
	if n == 3 {
		rp.A = 4
	}
	for i := 0; i < n; i++ {
		rp.Cs = append(rp.Cs, zero)
		rp.DResponses = append(rp.DResponses, big.NewInt(1))
		rp.VResponses = append(rp.VResponses, big.NewInt(1))
	}
	proof.RangeProofs = map[int][]*rangeproof.Proof{1: {rp}}
	if !proof.Verify(pk, ctx, nonce, false) {
		return
	}
	typ, factor, bound := rp.ProvenStatement()
	vpAssert("accepted range proof with degenerate commitments still states a truth", vpHoldsStatement(typ, factor, bound, cred.Attributes[1]))
}

func init() {
	vpHarnesses["vpC12_O5"] = vpC12_O5
}

// C12-O5: a prover who leaves out responses. The credential is (secret, 0, a2):
// a zero-valued attribute contributes nothing to the signature equation, so a
// prover can give it randomizer 0 and omit its response. The honest range proof
// on attribute 2 is then altered (bound, factor or a response changed) or
// replaced by a syntactically complete one with arbitrary content. Whenever the
// result is accepted, the range proof at the highest hidden index has been
// checked: it is bound to the attribute's response and its statement is true.
func vpC12_O5() {
	pk, sk := vpKeys(0, 4, 1024, false)
	a2 := vpBigBits("a2", 256)
	attrs := []*big.Int{vpBigBits("secret", 255), big.NewInt(0), a2}
	sig, err := SignMessageBlock(sk, pk, attrs)
	vpAssume(err == nil)
	cred := &Credential{Signature: sig, Pk: pk, Attributes: attrs}
	bound := vpBig("bound")
	vpAssume(bound.Sign() >= 0 && a2.Cmp(bound) >= 0 && new(big.Int).Sub(a2, bound).BitLen() <= 255)
	stmt := &rangeproof.Statement{Sign: 1, Factor: 1, Bound: bound}
	// graft: the prover makes its proof without any range statement (so that no range commitment enters
	// its challenge) and attaches a range proof of its own making afterwards
	graft := vpBool("graftedRangeProof")
	stmts := map[int][]*rangeproof.Statement{2: {stmt}}
	if graft {
		stmts = nil
	}
	b, err := cred.CreateDisclosureProofBuilder(nil, stmts, false)
	vpAssume(err == nil)
	omit := vpBool("omitZeroAttribute")
	if omit {
		b.attrRandomizers[1] = big.NewInt(0)
	}
	ctx, nonce := vpBigBits("ctx", 256), vpBigBits("nonce", 80)
	pl, err := ProofBuilderList{b}.BuildProofList(ctx, nonce, false)
	vpAssume(err == nil)
	proof := pl[0].(*ProofD)
	vpAssume(proof.C.Sign() != 0)
	if omit {
		vpAssert("the omitted response is zero", proof.AResponses[1].Sign() == 0)
		delete(proof.AResponses, 1)
	}
	if graft {
		proof.RangeProofs = map[int][]*rangeproof.Proof{2: {vpShapeRangeProof("graft", 3+vpChoose("rpn", 2))}}
	}
	rp := proof.RangeProofs[2][0]
	d := vpBig("d")
	vpAssume(d.Sign() != 0)
	alteration := 0
	if !graft {
		alteration = vpChoose("alteration", 4)
	}
	switch alteration {
	case 0: // none
	case 1:
		rp.K = new(big.Int).Add(rp.K, d)
	case 2:
		rp.V5Response = new(big.Int).Add(rp.V5Response, d)
	case 3:
		proof.RangeProofs[2][0] = vpShapeRangeProof("forged", 4)
	}
	if !proof.Verify(pk, ctx, nonce, false) {
		return
	}
	vpReach("a proof with an omitted zero attribute is accepted")
	for index, rps := range proof.RangeProofs {
		vpAssert("accepted proof (omitted responses): range proofs only at hidden attribute indices", index == 2 && proof.AResponses[index] != nil)
		for _, r := range rps {
			vpAssert("accepted proof (omitted responses): range proof is bound to the attribute's response", r.MResponse != nil && r.MResponse.Cmp(proof.AResponses[2]) == 0)
			typ, factor, bnd := r.ProvenStatement()
			vpAssert("accepted proof (omitted responses): reported statement is true of the signed value", vpHoldsStatement(typ, factor, bnd, a2))
		}
	}
}

func init() {
	vpHarnesses["vpC13_O4"] = vpC13_O4
}

// C13-O4: a true inequality is provable about any hidden attribute, whichever
// other attributes are disclosed: credential (secret, a1, a2, a3), a statement
// on attribute ra (or on two hidden attributes at once), every subset of the
// remaining attributes disclosed. The real prover creates the proof without error
// or panic, it verifies, and the library reports the statement as proven.
func vpC13_O4() {
	pk, sk := vpKeys(0, 4, 1024, false)
	cred := vpCredential(pk, sk, "a", 3, 256)
	ra := 1 + vpChoose("rangeAttr", 3)
	var disclosed []int
	var second int
	for i := 1; i <= 3; i++ {
		if i == ra {
			continue
		}
		switch vpChoose(fmt.Sprintf("role%d", i), 3) {
		case 1:
			disclosed = append(disclosed, i)
		case 2:
			second = i // a second statement in the same proof
		}
	}
	stmts := map[int][]*rangeproof.Statement{}
	for _, a := range []int{ra, second} {
		if a == 0 {
			continue
		}
		bound := vpBig(fmt.Sprintf("bound%d", a))
		vpAssume(cred.Attributes[a].Cmp(bound) >= 0 && vpDifference(1, 1, bound, cred.Attributes[a]).BitLen() <= 255)
		stmts[a] = []*rangeproof.Statement{{Sign: 1, Factor: 1, Bound: bound}}
	}
	ctx, nonce := vpBigBits("ctx", 256), vpBigBits("nonce", 80)
	proof, err := cred.CreateDisclosureProof(disclosed, stmts, false, ctx, nonce)
	vpAssert("a true statement on any hidden attribute is provable", err == nil && proof != nil)
	if err != nil {
		return
	}
	vpAssert("the proof with statements on arbitrary hidden attributes verifies", proof.Verify(pk, ctx, nonce, false))
	for a, st := range stmts {
		vpAssert("each statement is reported as proven at its attribute", len(proof.RangeProofs[a]) == 1 && proof.RangeProofs[a][0].Proves(st[0]))
	}
}

func init() {
	vpHarnesses["vpC12_O6"] = vpC12_O6
}

// C12-O6: a range proof is about the signed attribute because it shares the attribute's
// response. A holder whose attribute does not satisfy the statement computes the range
// part over another value that does (same randomiser as the attribute, so that the
// challenge covers it) while the signature part is about the signed value; the range
// proof object carries the response over the other value (in memory the field is
// set by the prover). The verifier has to use the attribute's own response: rejected.
func vpC12_O6() {
	pk, sk := vpKeys(0, 4, 1024, false)
	cred := vpCredential(pk, sk, "a", 2, 256)
	bound := vpBig("bound")
	other := vpBigBits("other", 256)
	vpAssume(other.Cmp(bound) >= 0 && vpDifference(1, 1, bound, other).BitLen() <= 255)
	vpAssume(cred.Attributes[1].Cmp(bound) < 0) // the statement is false of the signed value
	stmt := &rangeproof.Statement{Sign: 1, Factor: 1, Bound: bound}
	b, err := cred.CreateDisclosureProofBuilder(nil, map[int][]*rangeproof.Statement{1: {stmt}}, false)
	vpAssume(err == nil)
	forged := append([]*big.Int{}, cred.Attributes...)
	forged[1] = other
	b.attributes = forged // the commitments of the range part are made over the other value ...
	ctx, nonce := vpBigBits("ctx", 256), vpBigBits("nonce", 80)
	bl := ProofBuilderList{b}
	rs, err := NewProofRandomizers()
	vpAssume(err == nil)
	c, err := bl.ChallengeWithRandomizers(ctx, nonce, rs, false)
	vpAssume(err == nil && c.Sign() != 0)
	b.attributes = cred.Attributes // ... the responses of the signature part over the signed one
	pl, err := bl.BuildDistributedProofList(c, nil)
	vpAssume(err == nil)
	proof := pl[0].(*ProofD)
	vpAssume(len(proof.RangeProofs[1]) == 1)
	accepted := proof.Verify(pk, ctx, nonce, false)
	vpAssert("a range proof computed over another value than the signed attribute is rejected", !accepted)
}
