package gabi

import (
	"fmt"

	"github.com/privacybydesign/gabi/big"
	"github.com/privacybydesign/gabi/internal/common"
)

func init() {
	vpHarnesses["vpC05_O1"] = vpC05_O1
}

func vpMessages(prefix string, n int, bits int) []*big.Int {
	ms := make([]*big.Int, n)
	for i := range ms {
		ms[i] = vpBigBits(fmt.Sprintf("%s%d", prefix, i), bits)
	}
	return ms
}

// C05-O1: a signature produced by the real signing code over any message
// block (1..3 messages, each on either side of the hashing threshold)
// verifies, and still verifies after one and two randomisations.
func vpC05_O1() {
	pk, sk := vpKeys(0, 4, 1024, false)
	n := 1 + vpChoose("nmsg", vpParam("maxmsg", 3))
	ms := vpMessages("m", n, 300)
	sig, err := SignMessageBlock(sk, pk, ms)
	vpAssert("signing succeeds", err == nil)
	if err != nil {
		return
	}
	vpAssert("fresh signature verifies", sig.Verify(pk, ms))
	r1, err := sig.Randomize(pk)
	vpAssert("randomize succeeds", err == nil)
	if err != nil {
		return
	}
	vpAssert("randomized signature verifies", r1.Verify(pk, ms))
	r2, _ := r1.Randomize(pk)
	vpAssert("twice randomized signature verifies", r2.Verify(pk, ms))
}

func init() {
	vpHarnesses["vpC05_O4"] = vpC05_O4
	vpHarnesses["vpC05_O2"] = vpC05_O2
	vpHarnesses["vpC05_O3"] = vpC05_O3
}

// vpxPrimeNear: natively the next probable prime >= x (so that a solver-chosen
// exponent can be replayed with a real prime of the same magnitude);
// symbolically x itself, assumed prime.
func vpxPrimeNear(x *big.Int) *big.Int {
	p := new(big.Int).Set(x)
	if p.Bit(0) == 0 {
		p.Add(p, big.NewInt(1))
	}
	for !p.ProbablyPrime(30) {
		p.Add(p, big.NewInt(2))
	}
	return p
}

// C05-O2: signatures forged with the issuer's private key so that the
// signature equation holds for an arbitrary exponent e2 (prime or composite,
// anywhere): Verify accepts only if e2 is prime and inside
// [2^(le-1), 2^(le-1)+2^(le'-1)].
func vpC05_O2() {
	pk, sk := vpKeys(0, 3, 1024, false)
	ms := vpMessages("m", 2, 256)
	sig, err := SignMessageBlock(sk, pk, ms)
	vpAssume(err == nil)
	e2 := vpBigBits("e2", 700)
	prime := vpBool("e2prime")
	if prime {
		e2 = vpxPrimeNear(e2)
	} else {
		vpAssume(!vpIsPrime(e2))
	}
	vpAssume(e2.Sign() > 0)
	// A2 = (A^e)^(1/e2): the equation A2^e2 R S^v = Z holds by construction
	Q := new(big.Int).Exp(sig.A, sig.E, pk.N)
	d, ok := common.ModInverse(e2, sk.Order)
	vpAssume(ok)
	forged := &CLSignature{A: new(big.Int).Exp(Q, d, pk.N), E: e2, V: sig.V}
	start := new(big.Int).Lsh(big.NewInt(1), pk.Params.Le-1)
	end := new(big.Int).Add(start, new(big.Int).Lsh(big.NewInt(1), pk.Params.LePrime-1))
	inRange := e2.Cmp(start) >= 0 && e2.Cmp(end) <= 0
	accepted := forged.Verify(pk, ms)
	vpAssert("equation-satisfying signature accepted only with a prime exponent inside the interval", !accepted || (inRange && prime))
	// the verdict does not depend on what was verified before
	vpAssert("a second verification gives the same verdict", forged.Verify(pk, ms) == accepted)
	if inRange && prime {
		vpAssert("equation-satisfying signature with a proper exponent is accepted", accepted)
	}
}

// C05-O3: an honest signature does not verify against a message block that
// differs in one entry, with a keyshare contribution it was not made for, or
// under another public key.
func vpC05_O3() {
	pk, sk := vpKeys(0, 3, 1024, false)
	pk1, _ := vpKeys(1, 3, 1024, false)
	ms := vpMessages("m", 2, 300)
	sig, err := SignMessageBlock(sk, pk, ms)
	vpAssume(err == nil)
	switch vpChoose("alteration", 5) {
	case 0:
		j := vpChoose("j", 2)
		other := append([]*big.Int{}, ms...)
		other[j] = vpBigBits("other", 300)
		vpAssume(vpEff(other[j], pk).Cmp(vpEff(ms[j], pk)) != 0)
		vpAssert("other message block rejected", !sig.Verify(pk, other))
	case 1:
		vpAssert("shorter message block rejected", !sig.Verify(pk, ms[:1]) || vpEff(ms[1], pk).Sign() == 0)
	case 2:
		ks := vpBigBits("ks", 255)
		vpAssume(ks.Sign() > 0)
		withP := &CLSignature{A: sig.A, E: sig.E, V: sig.V, KeyshareP: new(big.Int).Exp(pk.R[0], ks, pk.N)}
		vpAssert("foreign keyshare contribution rejected", !withP.Verify(pk, ms))
	case 3:
		vpAssert("other public key rejected", !sig.Verify(pk1, ms))
	case 4:
		d := vpBig("d")
		vpAssume(d.Sign() != 0)
		alt := &CLSignature{A: sig.A, E: sig.E, V: new(big.Int).Add(sig.V, d)}
		vpAssert("altered v rejected", !alt.Verify(pk, ms))
	}
}

// C05-O4: a signature that carries a keyshare contribution (the holder's part x of
// the secret in the message block, the server's part as KeyshareP = R_0^y; the
// issuer signed x + y) verifies, remains valid after randomisation, and does not
// verify with another keyshare contribution.
func vpC05_O4() {
	pk, sk := vpKeys(0, 3, 1024, false)
	x, y := vpBigBits("x", 254), vpBigBits("y", 254)
	a1 := vpBigBits("a1", 256)
	sig, err := SignMessageBlock(sk, pk, []*big.Int{new(big.Int).Add(x, y), a1})
	vpAssume(err == nil)
	// (the block is shorter than the base list and the caller's slice has spare capacity:
	// verification must be a pure check of both)
	ms := make([]*big.Int, 2, 4)
	ms[0], ms[1] = x, a1
	full := []*big.Int{vpBigBits("f0", 255), vpBigBits("f1", 256), vpBigBits("f2", 256)}
	fullSig, err := SignMessageBlock(sk, pk, full)
	vpAssume(err == nil)
	lastBase, lastBaseVal := pk.R[2], new(big.Int).Set(pk.R[2])
	ks := &CLSignature{A: sig.A, E: sig.E, V: sig.V, KeyshareP: new(big.Int).Exp(pk.R[0], y, pk.N)}
	vpAssert("a signature with its keyshare contribution verifies", ks.Verify(pk, ms))
	vpAssert("verification leaves the public key and the message block as they were",
		len(pk.R) == 3 && pk.R[2] == lastBase && pk.R[2].Cmp(lastBaseVal) == 0 && ms[:3][2] == nil && ms[0] == x && ms[1] == a1)
	vpAssert("a valid signature over all bases still verifies after a keyshare signature was verified", fullSig.Verify(pk, full))
	bare := &CLSignature{A: sig.A, E: sig.E, V: sig.V}
	vpAssert("a keyshare signature without its contribution does not verify against the block extended by 1",
		!bare.Verify(pk, []*big.Int{x, a1, big.NewInt(1)}))
	r1, err := ks.Randomize(pk)
	vpAssume(err == nil)
	vpAssert("a randomised signature with keyshare contribution verifies", r1.Verify(pk, ms))
	y2 := vpBigBits("y2", 254)
	vpAssume(y2.Cmp(y) != 0)
	other := &CLSignature{A: sig.A, E: sig.E, V: sig.V, KeyshareP: new(big.Int).Exp(pk.R[0], y2, pk.N)}
	vpAssert("a signature does not verify with another keyshare contribution", !other.Verify(pk, ms))
}

func init() {
	vpHarnesses["vpC05_O5"] = vpC05_O5
}

// C05-O5: what is signed. The representation of a message block that signing and
// verification share equals its specification for entries of any size around the
// boundary: R_i^(m_i) for |m_i| of at most Lm bits, R_i^(SHA-256(|m_i|)) for longer
// ones ("oversized messages hashed") - in particular for m_i = 2^Lm, the smallest
// oversized message. The signature the issuer makes over such a block satisfies the
// signature equation with exactly this representation.
func vpC05_O5() {
	pk, sk := vpKeys(0, 3, 1024, false)
	n := 1 + vpChoose("nmsgs", 2)
	ms := make([]*big.Int, n)
	spec := big.NewInt(1)
	for i := range ms {
		ms[i] = vpBigBits(fmt.Sprintf("m%d", i), 300)
		if vpBool(fmt.Sprintf("neg%d", i)) {
			ms[i] = new(big.Int).Neg(ms[i])
		}
		exp := ms[i]
		if exp.BitLen() > int(pk.Params.Lm) {
			exp = common.IntHashSha256(exp.Bytes())
		}
		spec.Mul(spec, new(big.Int).Exp(pk.R[i], exp, pk.N)).Mod(spec, pk.N)
	}
	rep, err := RepresentToPublicKey(pk, ms)
	vpAssert("the representation of a message block is computed", err == nil)
	vpAssert("the representation hashes exactly the entries longer than Lm bits", vpSameGroupElem(new(big.Int).Mod(rep, pk.N), spec))
	sig, err := SignMessageBlock(sk, pk, ms)
	vpAssume(err == nil)
	// Z = A^e * S^v * rep (mod N)
	q := new(big.Int).Exp(sig.A, sig.E, pk.N)
	q.Mul(q, new(big.Int).Exp(pk.S, sig.V, pk.N)).Mod(q, pk.N)
	q.Mul(q, spec).Mod(q, pk.N)
	vpAssert("the issued signature satisfies the equation over the specified representation", vpSameGroupElem(q, pk.Z))
}
