package gabi

import (
	"fmt"

	"github.com/privacybydesign/gabi/big"
)

func init() {
	vpHarnesses["vpC05_O1"] = vpC05_O1
}

func vpMessages(prefix string, n int, bits int) []*big.Int {
	ms := make([]*big.Int, n)
	for i := range ms {
		ms[i] = vpBigBits(fmt.Sprintf("%s%d", prefix, i), bits)
	}
	return ms
}

// C05-O1: a signature produced by the real signing code over any message
// block (1..3 messages, each on either side of the hashing threshold)
// verifies, and still verifies after one and two randomisations.
func vpC05_O1() {
	pk, sk := vpKeys(0, 4, 1024, false)
	n := 1 + vpChoose("nmsg", vpParam("maxmsg", 3))
	ms := vpMessages("m", n, 300)
	sig, err := SignMessageBlock(sk, pk, ms)
	vpAssert("signing succeeds", err == nil)
	if err != nil {
		return
	}
	vpAssert("fresh signature verifies", sig.Verify(pk, ms))
	r1, err := sig.Randomize(pk)
	vpAssert("randomize succeeds", err == nil)
	if err != nil {
		return
	}
	vpAssert("randomized signature verifies", r1.Verify(pk, ms))
	r2, _ := r1.Randomize(pk)
	vpAssert("twice randomized signature verifies", r2.Verify(pk, ms))
}
