package gabi

import (
	"github.com/privacybydesign/gabi/big"
	"github.com/privacybydesign/gabi/gabikeys"
	"github.com/privacybydesign/gabi/revocation"
)

func init() {
	vpHarnesses["vpC07_O1"] = vpC07_O1
}

// vpImplied is the commitment randomiser a verifier who knows the secret m
// could compute from a response: r = response - c*m.
func vpImplied(resp, c, m *big.Int) *big.Int {
	return new(big.Int).Sub(resp, new(big.Int).Mul(c, m))
}

// C07-O1: two proofs produced one after the other from the same credential
// (with or without non-revocation parts, with the non-revocation cache
// prepared before the first, between the two, or never): no commitment
// randomiser is shared - the two-transcript extractor r1 == r2 fails for the
// secret key, every hidden attribute, e and v - and the randomised signature
// elements and non-revocation commitments differ. A prepared non-revocation
// commitment is consumed by at most one proof.
func vpC07_O1() {
	s := vpRevocableCredential(0, "")
	cred := s.cred
	nonrev1, nonrev2 := vpBool("nonrev1"), vpBool("nonrev2")
	hist := vpChoose("cacheHistory", 3) // 0: never prepared, 1: prepared before the first proof, 2: prepared between the proofs
	ctx1, nonce1 := vpBigBits("ctx1", 256), vpBigBits("nonce1", 80)
	ctx2, nonce2 := vpBigBits("ctx2", 256), vpBigBits("nonce2", 80)
	if hist == 1 {
		vpAssume(cred.NonrevPrepareCache() == nil)
	}
	if vpBool("witnessUpdatedAfterPrepare") {
		// another value is revoked and the holder's witness follows, without preparing again
		other := vpPrime("eOther", big.NewInt(3), big.NewInt(65521))
		vpAssume(other.Cmp(cred.NonRevocationWitness.E) != 0)
		newAcc, ev, err := s.acc.Remove(s.sk, other, s.upd.Events[0])
		vpAssume(err == nil)
		upd, err := revocation.NewUpdate(s.sk, newAcc, []*revocation.Event{s.upd.Events[0], ev})
		vpAssume(err == nil)
		vpAssume(cred.NonRevocationWitness.Update(s.pk, upd) == nil)
	}
	p1, err := cred.CreateDisclosureProof(nil, nil, nonrev1, ctx1, nonce1)
	vpAssume(err == nil)
	if hist == 2 {
		vpAssume(cred.NonrevPrepareCache() == nil)
	}
	p2, err := cred.CreateDisclosureProof(nil, nil, nonrev2, ctx2, nonce2)
	vpAssume(err == nil)

	for j := 0; j < len(cred.Attributes); j++ {
		r1 := vpImplied(p1.AResponses[j], p1.C, cred.Attributes[j])
		r2 := vpImplied(p2.AResponses[j], p2.C, cred.Attributes[j])
		vpAssert("attribute randomisers are not reused between proofs", r1.Cmp(r2) != 0)
	}
	vpAssert("randomised signature element A is fresh", !vpSameGroupElem(p1.A, p2.A))
	vpAssert("e and v responses use fresh randomisers", p1.EResponse.Cmp(p2.EResponse) != 0 && p1.VResponse.Cmp(p2.VResponse) != 0)
	if nonrev1 && nonrev2 {
		n1, n2 := p1.NonRevocationProof, p2.NonRevocationProof
		// (C_u is legitimately left unreduced after a refresh of the cached commitment: compare modulo N)
		cu1, cu2 := new(big.Int).Mod(n1.Cu, s.pk.N), new(big.Int).Mod(n2.Cu, s.pk.N)
		vpAssert("non-revocation commitments are fresh", !vpSameGroupElem(n1.Cr, n2.Cr) && !vpSameGroupElem(cu1, cu2))
		for _, name := range []string{"beta", "delta", "epsilon", "zeta"} {
			vpAssert("non-revocation responses use fresh randomisers", n1.Responses[name].Cmp(n2.Responses[name]) != 0)
		}
	}
	// the cache never holds more than one prepared commitment and a consumed one is gone
	if cred.nonrevCache != nil {
		vpAssert("at most one prepared commitment is cached", len(cred.nonrevCache) <= 1)
	}
}

func init() {
	vpHarnesses["vpC07_O3"] = vpC07_O3
}

// C07-O3: issuance commitments. One credential builder asked twice for its commitment
// proof (a retry with a fresh issuer nonce), or used in a proof list and then asked
// for its commitment proof: the secret-key randomiser of the second proof is not that
// of the first - the two-transcript extractor (s1 - s2)/(c1 - c2) does not give the
// secret key. (The builder's blinding v' is fixed at creation: that is the builder's
// state, not a hidden attribute, the secret key or a witness value.)
func vpC07_O3() {
	pk, _ := vpKeys(0, 3, 1024, false)
	ctx := vpBigBits("ctx", 256)
	secret := vpBigBits("secret", 255)
	n1, n1b := vpBigBits("nonce1", 80), vpBigBits("nonce1b", 80)
	b, err := NewCredentialBuilder(pk, ctx, secret, vpBigBits("n2", 80), nil, nil)
	vpAssume(err == nil)
	var pu1 *ProofU
	if vpBool("firstInProofList") {
		pl, err := ProofBuilderList{b}.BuildProofList(ctx, n1, false)
		vpAssume(err == nil)
		pu1 = pl[0].(*ProofU)
	} else {
		m1, err := b.CommitToSecretAndProve(n1)
		vpAssume(err == nil)
		pu1 = m1.Proofs[0].(*ProofU)
	}
	m2, err := b.CommitToSecretAndProve(n1b)
	vpAssume(err == nil)
	pu2 := m2.Proofs[0].(*ProofU)
	// the retried commitment message is an honest one: the issuer accepts it for the new nonce
	vpAssert("a retried commitment message verifies at the issuer", m2.Proofs.Verify([]*gabikeys.PublicKey{pk}, ctx, n1b, false, nil))
	r1 := vpImplied(pu1.SResponse, pu1.C, secret)
	r2 := vpImplied(pu2.SResponse, pu2.C, secret)
	vpAssert("two issuance commitments of one builder use different secret-key randomisers", r1.Cmp(r2) != 0)
}
