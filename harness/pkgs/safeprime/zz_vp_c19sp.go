package safeprime

import (
	"github.com/privacybydesign/gabi/big"
)

func init() {
	vpHarnesses["vpC19_O10"] = vpC19_O10
}

// C19-O10: safe-prime recognition. For every x in a small domain (negative values,
// 0, 1, 2, the smallest safe primes 5, 7, 11, 23, ... included) ProbablySafePrime
// answers exactly "x > 2, x prime and (x-1)/2 prime", where primality is the
// engine's exact table of primes below 4096; for wide odd x primality is an
// uninterpreted predicate and the answer has to be the same combination of it.
func vpC19_O10() {
	rounds := vpIntRange("rounds", 1, 40)
	if vpBool("wide") {
		x := vpBigBits("x", 512)
		vpAssume(x.Cmp(big.NewInt(4096)) > 0 && x.Bit(0) == 1)
		q := new(big.Int).Rsh(x, 1)
		want := vpIsPrime(x) && vpIsPrime(q)
		vpAssert("wide odd x: safe prime exactly when x and (x-1)/2 are prime", ProbablySafePrime(x, rounds) == want)
		return
	}
	xv := vpIntRange("xsmall", -10, 4095)
	x := big.NewInt(int64(xv))
	q := big.NewInt(int64((xv - 1) / 2))
	want := xv > 2 && vpIsPrime(x) && vpIsPrime(q)
	vpAssert("small x: safe prime exactly when x > 2 and x and (x-1)/2 are prime", ProbablySafePrime(x, rounds) == want)
	if xv == 5 || xv == 7 || xv == 11 || xv == 23 || xv == 47 || xv == 59 || xv == 83 || xv == 107 || xv == 4079 {
		vpAssert("the first safe primes are recognised", ProbablySafePrime(x, rounds))
	}
}
