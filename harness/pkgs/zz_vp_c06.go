package gabi

import (
	"fmt"

	"github.com/privacybydesign/gabi/internal/common"

	"github.com/privacybydesign/gabi/big"
	"github.com/privacybydesign/gabi/gabikeys"
	"github.com/privacybydesign/gabi/revocation"
)

func init() {
	vpHarnesses["vpC06_O3"] = vpC06_O3
	vpHarnesses["vpC06_O4"] = vpC06_O4
	vpHarnesses["vpC06_O1"] = vpC06_O1
	vpHarnesses["vpC06_O2"] = vpC06_O2
}

type vpIssuance struct {
	pk                   *gabikeys.PublicKey
	sk                   *gabikeys.PrivateKey
	ctx, nonce1, nonce2  *big.Int
	secret               *big.Int
	blind                []int
	isBlind              []bool
	attrs                []*big.Int
	builder              *CredentialBuilder
	commitMsg            *IssueCommitmentMessage
	sigMsg               *IssueSignatureMessage
}

// vpRunIssuance runs the honest protocol up to (and including) the issuer's message.
func vpRunIssuance(tag string, nattr int) *vpIssuance {
	r := &vpIssuance{}
	r.pk, r.sk = vpKeys(0, nattr+1, 1024, false)
	r.ctx, r.nonce1, r.nonce2 = vpBigBits(tag+"ctx", 256), vpBigBits(tag+"n1", 80), vpBigBits(tag+"n2", 80)
	r.secret = vpBigBits(tag+"secret", 255)
	r.isBlind = make([]bool, nattr)
	r.attrs = make([]*big.Int, nattr)
	for i := 0; i < nattr; i++ {
		if vpBool(fmt.Sprintf("%sblind%d", tag, i)) {
			r.blind = append(r.blind, i)
			r.isBlind[i] = true
		} else {
			r.attrs[i] = vpBigBits(fmt.Sprintf("%sattr%d", tag, i), 256)
		}
	}
	var err error
	r.builder, err = NewCredentialBuilder(r.pk, r.ctx, r.secret, r.nonce2, nil, r.blind)
	vpAssert("builder created", err == nil)
	r.commitMsg, err = r.builder.CommitToSecretAndProve(r.nonce1)
	vpAssert("commitment message created", err == nil)
	return r
}

func (r *vpIssuance) issue() error {
	issuer := NewIssuer(r.sk, r.pk, r.ctx)
	var err error
	r.sigMsg, err = issuer.IssueSignature(r.commitMsg.U, r.attrs, nil, r.commitMsg.Nonce2, r.blind)
	return err
}

// C06-O1: the honest issuance protocol (any subset of attributes random
// blind) ends with a credential whose signature verifies over (secret,
// attributes), each random-blind attribute being the sum of the two shares.
func vpC06_O1() {
	nattr := vpParam("nattr", 2)
	r := vpRunIssuance("", nattr)
	vpAssert("issuer accepts the commitment proof", r.commitMsg.Proofs.Verify([]*gabikeys.PublicKey{r.pk}, r.ctx, r.nonce1, false, nil))
	vpAssert("issuer signs", r.issue() == nil)
	attrsCopy := append([]*big.Int{}, r.attrs...)
	cred, err := r.builder.ConstructCredential(r.sigMsg, attrsCopy)
	vpAssert("credential constructed", err == nil && cred != nil)
	if err != nil {
		return
	}
	vpAssert("credential signature verifies", cred.Signature.Verify(r.pk, cred.Attributes))
	vpAssert("attribute 0 is the secret", len(cred.Attributes) == nattr+1 && vpSameBig(cred.Attributes[0], r.secret))
	for i := 0; i < nattr; i++ {
		if r.isBlind[i] {
			sum := new(big.Int).Add(r.builder.mUser[i+1], r.sigMsg.MIssuer[i+1])
			vpAssert("random blind attribute is the sum of the shares", vpSameBig(cred.Attributes[i+1], sum))
		} else {
			vpAssert("ordinary attribute is unchanged", vpSameBig(cred.Attributes[i+1], r.attrs[i]))
		}
	}
}

// C06-O2: deviations. The issuer rejects altered commitment proofs and wrong
// nonces/contexts; the holder rejects (with an error, not a panic, and
// without producing a credential) altered ProofS, signature components, blind
// shares and messages of another run.
func vpC06_O2() {
	nattr := vpParam("nattr", 1)
	r := vpRunIssuance("", nattr)
	d := vpBig("d")
	vpAssume(d.Sign() != 0)
	keys := []*gabikeys.PublicKey{r.pk}
	pu := r.commitMsg.Proofs[0].(*ProofU)
	vpAssume(pu.C.Sign() != 0)
	side := vpChoose("side", 2)
	if side == 0 {
		switch vpChoose("issuerdev", 8) {
		case 6: // the commitment message lacks U (a JSON document without the key): the issuer refuses, no panic
			r.commitMsg.U = nil
			vpAssert("issuer refuses a commitment message without U or nonce", r.issue() != nil && r.sigMsg == nil)
			return
		case 7: // ... or the holder's nonce
			r.commitMsg.Nonce2 = nil
			vpAssert("issuer refuses a commitment message without U or nonce", r.issue() != nil && r.sigMsg == nil)
			return
		case 0:
			pu.C = vpAddTo(pu.C, d)
		case 1:
			pu.VPrimeResponse = vpAddTo(pu.VPrimeResponse, d)
		case 2:
			pu.SResponse = vpAddTo(pu.SResponse, d)
		case 3:
			vpAssume(d.Sign() > 0)
			t := new(big.Int).Exp(r.pk.S, d, r.pk.N)
			pu.U = t.Mul(t, pu.U).Mod(t, r.pk.N)
		case 4:
			vpAssert("commitment proof under another nonce rejected", !r.commitMsg.Proofs.Verify(keys, r.ctx, vpAddTo(r.nonce1, d), false, nil))
			return
		case 5:
			vpAssert("commitment proof under another context rejected", !r.commitMsg.Proofs.Verify(keys, vpAddTo(r.ctx, d), r.nonce1, false, nil))
			return
		}
		vpAssert("altered commitment proof rejected", !r.commitMsg.Proofs.Verify(keys, r.ctx, r.nonce1, false, nil))
		return
	}
	vpAssume(r.issue() == nil)
	m := r.sigMsg
	vpAssume(m.Proof.C.Sign() != 0)
	switch vpChoose("holderdev", 16) {
	case 14: // another representative of the same residue: A + N (or A - N)
		m.Signature.A = new(big.Int).Add(m.Signature.A, r.pk.N)
	case 15:
		m.Signature.A = new(big.Int).Sub(m.Signature.A, r.pk.N)
	case 0:
		m.Proof.C = vpAddTo(m.Proof.C, d)
	case 1:
		m.Proof.EResponse = vpAddTo(m.Proof.EResponse, d)
	case 2:
		vpAssume(d.Sign() > 0)
		t := new(big.Int).Exp(r.pk.S, d, r.pk.N)
		m.Signature.A = t.Mul(t, m.Signature.A).Mod(t, r.pk.N)
	case 3:
		m.Signature.E = vpAddTo(m.Signature.E, d)
	case 4:
		m.Signature.V = vpAddTo(m.Signature.V, d)
	case 5:
		vpAssume(len(r.blind) > 0)
		i := r.blind[0] + 1
		m.MIssuer[i] = vpAddTo(m.MIssuer[i], d)
	case 6:
		vpAssume(len(r.blind) > 0)
		delete(m.MIssuer, r.blind[0]+1)
	case 9: // a blind share shifted by d, compensated through the (normally absent) KeyshareP field
		vpAssume(len(r.blind) > 0 && d.Sign() > 0)
		i := r.blind[0] + 1
		m.MIssuer[i] = vpAddTo(m.MIssuer[i], d)
		inv, ok := common.ModInverse(r.pk.R[i], r.pk.N)
		vpAssume(ok)
		m.Signature.KeyshareP = new(big.Int).Exp(inv, d, r.pk.N)
	case 10: // an ordinary attribute shifted the same way (the holder's own list differs from what was signed)
		vpAssume(len(r.blind) < nattr && d.Sign() > 0)
		i := 0
		for r.isBlind[i] {
			i++
		}
		r.attrs[i] = vpAddTo(r.attrs[i], d)
		inv, ok := common.ModInverse(r.pk.R[i+1], r.pk.N)
		vpAssume(ok)
		m.Signature.KeyshareP = new(big.Int).Exp(inv, d, r.pk.N)
	case 11: // parts of the message are missing altogether (a JSON document without the key)
		m.Proof = nil
	case 12:
		m.Signature = nil
	case 13:
		m.Proof = &ProofS{}
	case 7: // the holder's own nonce differs from the one the issuer used
		r.builder.nonce2 = vpAddTo(r.builder.nonce2, d)
	case 8: // the holder's context differs
		r.builder.context = vpAddTo(r.builder.context, d)
	}
	cred, err := r.builder.ConstructCredential(m, append([]*big.Int{}, r.attrs...))
	vpAssert("deviating issuer message is refused", err != nil && cred == nil)
}

// C06-O3: honest issuance of a revocable credential: the issuer's real code makes
// an accumulator and a witness, the witness value is the last attribute, and the
// ordinary attribute is random blind or not. The run ends in a credential that
// carries the witness, whose signature verifies over (secret, attributes), whose
// revocation attribute is found at its index, and whose random-blind attribute is
// the sum of the shares - no panic, no error.
func vpC06_O3() {
	pk, sk := vpKeys(0, 3, 1024, true)
	ctx, nonce1, nonce2 := vpBigBits("ctx", 256), vpBigBits("n1", 80), vpBigBits("n2", 80)
	secret := vpBigBits("secret", 255)
	upd, err := revocation.NewAccumulator(sk)
	vpAssume(err == nil)
	acc, err := upd.SignedAccumulator.UnmarshalVerify(pk)
	vpAssume(err == nil)
	wit, err := revocation.RandomWitness(sk, acc)
	vpAssume(err == nil)
	wit.SignedAccumulator = upd.SignedAccumulator
	var blind []int
	attrs := []*big.Int{nil, wit.E}
	isBlind := vpBool("blind0")
	if isBlind {
		blind = []int{0}
	} else {
		attrs[0] = vpBigBits("attr0", 256)
		vpAssume(attrs[0].Cmp(wit.E) != 0)
	}
	vpAssume(secret.Cmp(wit.E) != 0)
	builder, err := NewCredentialBuilder(pk, ctx, secret, nonce2, nil, blind)
	vpAssert("builder created", err == nil)
	commitMsg, err := builder.CommitToSecretAndProve(nonce1)
	vpAssert("commitment message created", err == nil)
	sigMsg, err := NewIssuer(sk, pk, ctx).IssueSignature(commitMsg.U, attrs, wit, commitMsg.Nonce2, blind)
	vpAssert("issuer signs", err == nil)
	cred, err := builder.ConstructCredential(sigMsg, append([]*big.Int{}, attrs...))
	vpAssert("revocable credential constructed", err == nil && cred != nil)
	if err != nil {
		return
	}
	vpAssert("revocable credential carries its witness", cred.NonRevocationWitness != nil && cred.NonRevocationWitness.E.Cmp(wit.E) == 0)
	idx, err := cred.NonrevIndex()
	vpAssert("revocation attribute is found at its index", err == nil && idx == 2)
	vpAssert("revocable credential signature verifies", cred.Signature.Verify(pk, cred.Attributes))
	if isBlind {
		vpAssert("random blind attribute of the revocable credential is the sum of the shares", vpSameBig(cred.Attributes[1], new(big.Int).Add(builder.mUser[1], sigMsg.MIssuer[1])))
	}
}

// C06-O4: issuance of a revocable credential where the witness in the issuer's
// message is incomplete or wrong (what a JSON document `"nonrev":{}` or one with a
// key left out decodes to): the holder refuses with an error - no panic, no credential.
func vpC06_O4() {
	pk, sk := vpKeys(0, 3, 1024, true)
	ctx, nonce1, nonce2 := vpBigBits("ctx", 256), vpBigBits("n1", 80), vpBigBits("n2", 80)
	secret := vpBigBits("secret", 255)
	upd, err := revocation.NewAccumulator(sk)
	vpAssume(err == nil)
	acc, err := upd.SignedAccumulator.UnmarshalVerify(pk)
	vpAssume(err == nil)
	wit, err := revocation.RandomWitness(sk, acc)
	vpAssume(err == nil)
	wit.SignedAccumulator = upd.SignedAccumulator
	attrs := []*big.Int{vpBigBits("attr0", 256), wit.E}
	vpAssume(attrs[0].Cmp(wit.E) != 0 && secret.Cmp(wit.E) != 0)
	builder, err := NewCredentialBuilder(pk, ctx, secret, nonce2, nil, nil)
	vpAssume(err == nil)
	commitMsg, err := builder.CommitToSecretAndProve(nonce1)
	vpAssume(err == nil)
	sigMsg, err := NewIssuer(sk, pk, ctx).IssueSignature(commitMsg.U, attrs, wit, commitMsg.Nonce2, nil)
	vpAssume(err == nil)
	w := sigMsg.NonRevocationWitness
	switch vpChoose("witdev", 10) {
	case 7: // U altered in transit
		d := vpBigBits("du", 64)
		vpAssume(d.Sign() > 0)
		sigMsg.NonRevocationWitness = &revocation.Witness{U: new(big.Int).Add(w.U, d), E: w.E, SignedAccumulator: w.SignedAccumulator}
	case 8: // U of another witness against the same accumulator
		other, err := revocation.RandomWitness(sk, acc)
		vpAssume(err == nil && other.E.Cmp(w.E) != 0)
		sigMsg.NonRevocationWitness = &revocation.Witness{U: other.U, E: w.E, SignedAccumulator: w.SignedAccumulator}
	case 9: // E replaced by the value of an ordinary attribute of the same credential
		sigMsg.NonRevocationWitness = &revocation.Witness{U: w.U, E: attrs[0], SignedAccumulator: w.SignedAccumulator}
	case 0:
		sigMsg.NonRevocationWitness = &revocation.Witness{}
	case 1:
		sigMsg.NonRevocationWitness = &revocation.Witness{U: w.U, E: w.E}
	case 2:
		sigMsg.NonRevocationWitness = &revocation.Witness{E: w.E, SignedAccumulator: w.SignedAccumulator}
	case 3:
		sigMsg.NonRevocationWitness = &revocation.Witness{U: w.U, SignedAccumulator: w.SignedAccumulator}
	case 4: // a signed accumulator without its signed data
		sigMsg.NonRevocationWitness = &revocation.Witness{U: w.U, E: w.E, SignedAccumulator: &revocation.SignedAccumulator{PKCounter: pk.Counter}}
	case 5: // a witness value that is not what was accumulated
		d := vpBigBits("d", 64)
		vpAssume(d.Sign() > 0)
		sigMsg.NonRevocationWitness = &revocation.Witness{U: w.U, E: new(big.Int).Add(w.E, d), SignedAccumulator: w.SignedAccumulator}
	case 6: // a valid witness for a value that is not among the signed attributes
		other, err := revocation.RandomWitness(sk, acc)
		vpAssume(err == nil && other.E.Cmp(w.E) != 0 && other.E.Cmp(attrs[0]) != 0 && other.E.Cmp(secret) != 0)
		other.SignedAccumulator = w.SignedAccumulator
		sigMsg.NonRevocationWitness = other
	}
	cred, err := builder.ConstructCredential(sigMsg, append([]*big.Int{}, attrs...))
	vpAssert("issuer message with an incomplete or wrong witness is refused", err != nil && cred == nil)
}
