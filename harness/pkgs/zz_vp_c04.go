package gabi

import (
	"github.com/privacybydesign/gabi/gabikeys"
)

func init() {
	vpHarnesses["vpC04_O1"] = vpC04_O1
}

// C04-O1/O2: for every credential (k hidden-or-disclosed attributes, values on
// both sides of the hashing threshold), every disclosure subset and both
// session kinds, the real prover's proof verifies, reports exactly the chosen
// indices with their true values, has a response for every other index, and
// the timestamp contribution carries zero for every hidden attribute.
func vpC04_O1() {
	pk, sk := vpKeys(0, 6, 1024, false)
	k := vpParam("nattr", 2)
	cred := vpCredential(pk, sk, "a", k, 300)
	disclosed, isDisc := vpDisclosureChoice("disc", k)
	// the choice is a set: the caller may list it in any order (here ascending or descending)
	if vpBool("descendingChoice") {
		for a, b := 0, len(disclosed)-1; a < b; a, b = a+1, b-1 {
			disclosed[a], disclosed[b] = disclosed[b], disclosed[a]
		}
	}
	ctx, nonce := vpBigBits("ctx", 256), vpBigBits("nonce", 80)
	issig := vpBool("issig")

	builder, err := cred.CreateDisclosureProofBuilder(disclosed, nil, false)
	vpAssert("builder created", err == nil)
	if err != nil {
		return
	}
	pl, err := ProofBuilderList{builder}.BuildProofList(ctx, nonce, issig)
	vpAssert("proof created", err == nil && len(pl) == 1)
	if err != nil {
		return
	}
	proof := pl[0].(*ProofD)
	vpAssert("honest proof verifies", proof.Verify(pk, ctx, nonce, issig))
	vpAssert("honest proof verifies as list", pl.Verify([]*gabikeys.PublicKey{pk}, ctx, nonce, issig, nil))

	nDisc := 0
	for i := 1; i <= k; i++ {
		if isDisc[i] {
			nDisc++
			vpAssert("disclosed value is the true value", vpSameBig(proof.ADisclosed[i], cred.Attributes[i]))
			vpAssert("disclosed index has no response", proof.AResponses[i] == nil)
		} else {
			vpAssert("hidden index not reported as disclosed", proof.ADisclosed[i] == nil)
			vpAssert("hidden index has a response", proof.AResponses[i] != nil)
		}
	}
	// a hidden value leaks if two responses share their randomizer: (response_i - response_j)/c = m_i - m_j.
	// Every hidden index (the secret key included) has its own, independently drawn randomizer.
	for i := 0; i <= k; i++ {
		for j := i + 1; j <= k; j++ {
			if (i == 0 || !isDisc[i]) && !isDisc[j] {
				ri := vpImplied(proof.AResponses[i], proof.C, vpEff(cred.Attributes[i], pk))
				rj := vpImplied(proof.AResponses[j], proof.C, vpEff(cred.Attributes[j], pk))
				vpAssert("hidden attributes are blinded by independent randomizers", ri.Cmp(rj) != 0)
			}
		}
	}
	vpAssert("secret key stays hidden", proof.ADisclosed[0] == nil && proof.AResponses[0] != nil)
	vpAssert("exact key sets", len(proof.ADisclosed) == nDisc && len(proof.AResponses) == k+1-nDisc)

	A, ts := builder.TimestampRequestContributions()
	vpAssert("timestamp A is the randomized A", vpSameBig(A, proof.A))
	vpAssert("timestamp list length", len(ts) == k+1)
	for i := 0; i <= k; i++ {
		if i > 0 && isDisc[i] {
			vpAssert("timestamp carries disclosed value", vpSameBig(ts[i], cred.Attributes[i]))
		} else {
			vpAssert("timestamp carries zero for hidden", ts[i].Sign() == 0)
		}
	}
}
