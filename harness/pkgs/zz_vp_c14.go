package gabi

import (
	"fmt"

	"github.com/privacybydesign/gabi/big"
	"github.com/privacybydesign/gabi/gabikeys"
)

func init() {
	vpHarnesses["vpC14_O1"] = vpC14_O1
}

// vpKeyshareBuilder makes builder i over key pk holding the user's share;
// kssP (R_0^kss) is nil when the key does not take part in the keyshare protocol.
func vpKeyshareBuilder(i, kind int, pk *gabikeys.PublicKey, sk *gabikeys.PrivateKey, userSecret, kssP, ctx *big.Int) ProofBuilder {
	if kind == 1 {
		b, err := NewCredentialBuilder(pk, ctx, userSecret, vpBigBits(fmt.Sprintf("b%dn2", i), 80), kssP, nil)
		vpAssume(err == nil)
		return b
	}
	attrs := append([]*big.Int{userSecret}, vpMessages(fmt.Sprintf("b%da", i), 1, 256)...)
	U := big.NewInt(1)
	if kssP != nil {
		U = kssP
	}
	sig, err := signMessageBlockAndCommitment(sk, pk, U, attrs)
	vpAssume(err == nil)
	sig.KeyshareP = kssP
	cred := &Credential{Signature: sig, Pk: pk, Attributes: attrs}
	vpAssert("keyshare credential verifies", sig.Verify(pk, attrs))
	var disclosed []int
	if vpBool(fmt.Sprintf("b%ddisc", i)) {
		disclosed = []int{1}
	}
	b, err := cred.CreateDisclosureProofBuilder(disclosed, nil, false)
	vpAssume(err == nil)
	return b
}

// C14: the user/keyshare-server exchange over 1..2 builders (disclosure or
// issuance; each key participating or not) yields a proof list that verifies
// for total secret = user share + server share with the server's challenge
// equal to the user's; any second message that differs from what was
// committed to in the first (value, commitment, order, count, key id) or that
// names an unknown key makes the server return an error and no response.
func vpC14_O1() {
	pks := make([]*gabikeys.PublicKey, 2)
	sks := make([]*gabikeys.PrivateKey, 2)
	pks[0], sks[0] = vpKeys(0, 3, 1024, false)
	// the second key has the same length as the first or is a 2048-bit key (mixed key sizes)
	len1 := 1024
	if vpBool("key1large") {
		len1 = 2048
	}
	pks[1], sks[1] = vpKeys(1, 3, len1, false)
	userSecret, kssSecret := vpBigBits("usersecret", 255), vpBigBits("ksssecret", 255)
	ctx, nonce := vpBigBits("ctx", 256), vpBigBits("nonce", 80)
	issig := vpBool("issig")

	keys := map[string]*gabikeys.PublicKey{pks[0].Issuer: pks[0]}
	if vpBool("key1participates") {
		keys[pks[1].Issuer] = pks[1]
	}
	n := 1 + vpChoose("nbuilders", vpParam("maxbuilders", 2))
	var builders ProofBuilderList
	var keysSlice []*gabikeys.PublicKey
	participates := make([]bool, n)
	for i := 0; i < n; i++ {
		pk, sk := pks[i], sks[i]
		var kssP *big.Int
		if keys[pk.Issuer] != nil {
			participates[i] = true
			kssP = new(big.Int).Exp(pk.R[0], kssSecret, pk.N)
		}
		builders = append(builders, vpKeyshareBuilder(i, vpChoose(fmt.Sprintf("kind%d", i), 2), pk, sk, userSecret, kssP, ctx))
		keysSlice = append(keysSlice, pk)
	}

	randomizers, err := NewProofRandomizers()
	vpAssume(err == nil)
	commReq, hashInput, err := KeyshareUserCommitmentRequest(builders, randomizers, keys)
	vpAssert("user commitment request", err == nil)
	kssRandomizer, kssComm, err := NewKeyshareCommitments(kssSecret, keysSlice)
	vpAssert("server commitments", err == nil)
	for i, b := range builders {
		if participates[i] {
			b.SetProofPCommitment(kssComm[i])
		}
	}
	// Completeness holds except on a 2^-161 tail: both secret-key randomizers are drawn below
	// 2^LmCommit and their sum plus c*(total secret) must stay below 2^(LmCommit+1).
	// the server's randomizer is drawn for the smallest key involved (here always the 1024-bit first key):
	// a longer one makes the joint response overflow that key's range almost always
	vpAssert("the server's randomizer fits the smallest key involved", kssRandomizer.Sign() >= 0 && kssRandomizer.BitLen() <= int(gabikeys.DefaultSystemParameters[1024].LmCommit))
	// (the bound of the smallest key involved applies)
	lim := new(big.Int).Lsh(big.NewInt(1), gabikeys.DefaultSystemParameters[1024].LmCommit+1)
	lim.Sub(lim, new(big.Int).Lsh(big.NewInt(1), 512))
	vpAssume(new(big.Int).Add(kssRandomizer, randomizers["secretkey"]).Cmp(lim) < 0)
	respReq, challenge, err := KeyshareUserResponseRequest(builders, randomizers, hashInput, ctx, nonce, issig)
	vpAssert("user response request", err == nil)
	// (the request is used as the library returns it: it has to carry the context itself)

	d := vpBig("d")
	vpAssume(d.Sign() != 0)
	dev := vpChoose("deviation", 9)
	serverKeys := keys
	in := respReq.UserChallengeInput
	switch dev {
	case 1:
		// (the commitment hash covers magnitudes - gabi's big.Int marshals without sign - so a
		// deviation means another magnitude)
		nv := new(big.Int).Add(in[0].Value, d)
		vpAssume(nv.CmpAbs(in[0].Value) != 0)
		in[0].Value = nv
	case 2:
		nc := new(big.Int).Add(in[0].Commitment, d)
		vpAssume(nc.CmpAbs(in[0].Commitment) != 0)
		in[0].Commitment = nc
	case 3:
		vpAssume(n == 2)
		in[0], in[1] = in[1], in[0]
	case 4:
		vpAssume(n == 2)
		respReq.UserChallengeInput = in[:1]
	case 5:
		unknown := "no such key"
		in[0].KeyID = &unknown
	case 6:
		in[0].KeyID = nil // pretend the first key does not take part
	case 8: // the second message is what was committed to, but the server does not (any longer) know the first key
		vpAssume(in[0].KeyID != nil)
		serverKeys = map[string]*gabikeys.PublicKey{}
		for id, k := range keys {
			if id != *in[0].KeyID {
				serverKeys[id] = k
			}
		}
	case 7: // the first entry is re-labelled with another key the server knows
		vpAssume(keys[pks[1].Issuer] != nil)
		otherID := pks[1].Issuer
		in[0].KeyID = &otherID
	}
	randomizerBefore, secretBefore := new(big.Int).Set(kssRandomizer), new(big.Int).Set(kssSecret)
	proofP, err := KeyshareResponse(kssSecret, kssRandomizer, commReq, respReq, serverKeys)
	vpAssert("the server's secret and randomizer are left as they were", kssRandomizer.Cmp(randomizerBefore) == 0 && kssSecret.Cmp(secretBefore) == 0)
	if dev != 0 {
		vpAssert("server refuses a second message that differs from the commitment", err != nil && proofP == nil)
		return
	}
	vpAssert("server responds to the honest second message", err == nil && proofP != nil)
	if err != nil {
		return
	}
	vpAssert("server and user computed the same challenge", vpSameBig(proofP.C, challenge))
	// the same second message delivered again (a retry): same answer, and the first answer is not altered by it
	firstC, firstS := new(big.Int).Set(proofP.C), new(big.Int).Set(proofP.SResponse)
	again, err := KeyshareResponse(kssSecret, kssRandomizer, commReq, respReq, serverKeys)
	vpAssert("a re-delivered second message gets the same answer", err == nil && again != nil && vpSameBig(again.C, firstC) && again.SResponse.Cmp(firstS) == 0 && vpSameGroupElem(again.P, proofP.P))
	vpAssert("an answer already given is not altered afterwards", proofP.C.Cmp(firstC) == 0 && proofP.SResponse.Cmp(firstS) == 0)
	proofPs := make([]*ProofP, n)
	kss := make([]string, n)
	for i := range builders {
		if participates[i] {
			proofPs[i] = proofP
			kss[i] = "keyshare server"
		}
	}
	proofs, err := builders.BuildDistributedProofList(challenge, proofPs)
	vpAssert("distributed proof list built", err == nil)
	vpAssert("joint proof list verifies", proofs.Verify(keysSlice, ctx, nonce, issig, kss))
}

func init() {
	vpHarnesses["vpC14_O2"] = vpC14_O2
}

// C14-O2: a second message that lacks a part (a JSON document with the key left
// out): the commitment of an entry, its value, one of its other commitments, the
// user's response or the nonce. Whether the first message's hash was computed over
// the complete input or over the same incomplete one, the server answers with an
// error and no response - it does not panic.
func vpC14_O2() {
	pk, sk := vpKeys(0, 3, 1024, false)
	userSecret, kssSecret := vpBigBits("usersecret", 255), vpBigBits("ksssecret", 255)
	ctx, nonce := vpBigBits("ctx", 256), vpBigBits("nonce", 80)
	issig := vpBool("issig")
	keys := map[string]*gabikeys.PublicKey{pk.Issuer: pk}
	kssP := new(big.Int).Exp(pk.R[0], kssSecret, pk.N)
	builders := ProofBuilderList{vpKeyshareBuilder(0, vpChoose("kind0", 2), pk, sk, userSecret, kssP, ctx)}
	randomizers, err := NewProofRandomizers()
	vpAssume(err == nil)
	commReq, hashInput, err := KeyshareUserCommitmentRequest(builders, randomizers, keys)
	vpAssume(err == nil)
	kssRandomizer, kssComm, err := NewKeyshareCommitments(kssSecret, []*gabikeys.PublicKey{pk})
	vpAssume(err == nil)
	builders[0].SetProofPCommitment(kssComm[0])
	respReq, _, err := KeyshareUserResponseRequest(builders, randomizers, hashInput, ctx, nonce, issig)
	vpAssume(err == nil)
	in := respReq.UserChallengeInput
	vpAssume(len(in) == 1)
	switch vpChoose("missing", 6) {
	case 0:
		in[0].Commitment = nil
	case 1:
		in[0].Value = nil
	case 2:
		respReq.UserResponse = nil
	case 3:
		respReq.Nonce = nil
	case 4:
		in[0].OtherCommitments = append(append([]*big.Int{}, in[0].OtherCommitments...), nil)
	case 5:
		in[0].KeyID = nil
		in[0].Commitment = nil
	}
	if vpBool("firstMessageOverTheSameInput") {
		h, err := keyshareUserCommitmentsHash(in)
		vpAssume(err == nil)
		commReq.HashedUserCommitments = h
	}
	proofP, err := KeyshareResponse(kssSecret, kssRandomizer, commReq, respReq, keys)
	vpAssert("server refuses an incomplete second message with an error", err != nil && proofP == nil)
}
