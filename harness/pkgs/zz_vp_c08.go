package gabi

import (
	"fmt"

	"github.com/privacybydesign/gabi/big"
	"github.com/privacybydesign/gabi/gabikeys"
	"github.com/privacybydesign/gabi/rangeproof"
	"github.com/privacybydesign/gabi/revocation"
)

func init() {
	vpHarnesses["vpC08_O4"] = vpC08_O4
	vpHarnesses["vpC08_O3"] = vpC08_O3
	vpHarnesses["vpC08_O1"] = vpC08_O1
	vpHarnesses["vpC08_O2"] = vpC08_O2
}

func vpAnyBig(name string) *big.Int { return vpBigBits(name, 1100) }

// vpShapeRangeProof: a syntactically complete range proof with arbitrary content.
func vpShapeRangeProof(tag string, n int) *rangeproof.Proof {
	p := &rangeproof.Proof{
		V5Response: vpAnyBig(tag + "v5"),
		Ld:         vpUint(tag + "ld"), Sign: vpInt(tag + "sign"), A: vpUint(tag + "a"), K: vpAnyBig(tag + "k"),
	}
	for i := 0; i < n; i++ {
		p.Cs = append(p.Cs, vpAnyBig(fmt.Sprintf("%scs%d", tag, i)))
		p.DResponses = append(p.DResponses, vpAnyBig(fmt.Sprintf("%sd%d", tag, i)))
		p.VResponses = append(p.VResponses, vpAnyBig(fmt.Sprintf("%sv%d", tag, i)))
	}
	return p
}

// vpShapeNonrev: a syntactically complete non-revocation proof with arbitrary content;
// the signed accumulator is authentic for the key iff sacc != nil.
func vpShapeNonrev(tag string, sacc *revocation.SignedAccumulator) *revocation.Proof {
	p := &revocation.Proof{Cr: vpAnyBig(tag + "cr"), Cu: vpAnyBig(tag + "cu"), Responses: map[string]*big.Int{}, SignedAccumulator: sacc}
	for _, n := range []string{"beta", "delta", "epsilon", "zeta"} {
		p.Responses[n] = vpAnyBig(tag + n)
	}
	return p
}

// C08-O1: ProofD shapes. A structurally complete disclosure proof with
// arbitrary integer content and arbitrary integer map keys (negative, zero,
// len(R), 2^31, ... are all values of the symbolic keys), with or without a
// non-revocation part and a range proof, under a key with or without
// revocation support, then one structural mutation (a pointer field, map,
// map value, slice element set to nil; a map entry deleted; a slice
// truncated): verification returns a verdict and never panics, and the
// verdict for a nulled/deleted mandatory part is rejection.
func vpC08_O1() {
	// optional parts: none, a non-revocation part, or a range proof
	section := vpParam("section", -1)
	if section < 0 {
		section = vpChoose("section", 3)
	}
	revKey := section == 1 && vpBool("revocationKey")
	pk, sk := vpKeys(0, 3, 1024, revKey)
	p := &ProofD{C: vpBigBits("c", 256), A: vpAnyBig("A"), EResponse: vpAnyBig("e"), VResponse: vpBigBits("v", 2100),
		AResponses: map[int]*big.Int{}, ADisclosed: map[int]*big.Int{}}
	// arbitrary integer keys in the section about the main part, in-range keys otherwise
	k1, k2 := 1, 2
	if section == 0 {
		k1, k2 = vpInt("k1"), vpInt("k2")
	}
	p.AResponses[0] = vpAnyBig("r0")
	if k1 != 0 {
		p.AResponses[k1] = vpAnyBig("r1")
	}
	vpAssume(k2 != 0 && k2 != k1)
	p.ADisclosed[k2] = vpAnyBig("d2")
	hasNonrev, hasRange := section == 1, section == 2
	if hasNonrev {
		var sacc *revocation.SignedAccumulator
		switch accKind := vpChoose("accKind", 3); {
		case accKind == 0 && revKey: // authentic accumulator of this key
			upd, err := revocation.NewAccumulator(sk)
			vpAssume(err == nil)
			sacc = &revocation.SignedAccumulator{Data: upd.SignedAccumulator.Data, PKCounter: upd.SignedAccumulator.PKCounter}
		case accKind == 1: // well-formed message signed by another issuer's key
			_, sk1 := vpKeys(1, 1, 1024, true)
			upd, err := revocation.NewAccumulator(sk1)
			vpAssume(err == nil)
			sacc = &revocation.SignedAccumulator{Data: upd.SignedAccumulator.Data, PKCounter: pk.Counter}
		default: // no signed data at all
			sacc = &revocation.SignedAccumulator{PKCounter: pk.Counter}
		}
		p.NonRevocationProof = vpShapeNonrev("nr", sacc)
	}
	var rp *rangeproof.Proof
	if hasRange {
		rp = vpShapeRangeProof("rp", 3+vpChoose("rpn", 2))
		rpIndices := []int{-1, 0, 1, 2, 3, 1 << 31}
		p.RangeProofs = map[int][]*rangeproof.Proof{rpIndices[vpChoose("krp", 6)]: {rp}}
	}
	mandatoryGone := false
	// mutations 0..10 concern the main part, 11..15 the non-revocation part, 16..21 the range proof
	// (single mutations; the optional parts are mutated only in their own section)
	mutation := 0
	switch {
	case hasNonrev:
		if vpBool("mutateNonrev") {
			mutation = 11 + vpChoose("nonrevMutation", 6)
			if mutation == 16 {
				mutation = 22 // (16..21 are the range proof mutations)
			}
		}
	case hasRange:
		if vpBool("mutateRange") {
			mutation = 16 + vpChoose("rangeMutation", 8)
			if mutation >= 22 {
				mutation += 1 // 23, 24 (22 is a non-revocation mutation)
			}
		}
	default:
		mutation = vpChoose("mutation", 11)
	}
	switch mutation {
	case 0: // none
	case 1:
		p.C, mandatoryGone = nil, true
	case 2:
		p.A, mandatoryGone = nil, true
	case 3:
		p.EResponse, mandatoryGone = nil, true
	case 4:
		p.VResponse, mandatoryGone = nil, true
	case 5:
		p.AResponses, mandatoryGone = nil, true
	case 6:
		p.ADisclosed = nil
	case 7:
		p.AResponses[0], mandatoryGone = nil, true
	case 8:
		delete(p.AResponses, 0)
		mandatoryGone = true
	case 9:
		vpAssume(k1 != 0)
		p.AResponses[k1], mandatoryGone = nil, true
	case 10:
		vpAssume(len(p.ADisclosed) > 0)
		p.ADisclosed[k2], mandatoryGone = nil, true
	case 11:
		vpAssume(hasNonrev)
		p.NonRevocationProof.Cr, mandatoryGone = nil, true
	case 12:
		vpAssume(hasNonrev)
		p.NonRevocationProof.Cu, mandatoryGone = nil, true
	case 13:
		vpAssume(hasNonrev)
		p.NonRevocationProof.Responses, mandatoryGone = nil, true
	case 14:
		vpAssume(hasNonrev)
		delete(p.NonRevocationProof.Responses, "beta")
		mandatoryGone = true
	case 15:
		vpAssume(hasNonrev)
		p.NonRevocationProof.SignedAccumulator, mandatoryGone = nil, true
	case 22: // a response under another name: the count is right, one of the expected names is missing
		vpAssume(hasNonrev)
		names := []string{"beta", "delta", "epsilon", "zeta"}
		name := names[vpChoose("rekeyed", 4)]
		p.NonRevocationProof.Responses["gamma"] = p.NonRevocationProof.Responses[name]
		delete(p.NonRevocationProof.Responses, name)
		mandatoryGone = true
	case 16:
		vpAssume(hasRange)
		rp.K, mandatoryGone = nil, true
	case 17:
		vpAssume(hasRange)
		rp.V5Response, mandatoryGone = nil, true
	case 18:
		vpAssume(hasRange)
		rp.Cs[0], mandatoryGone = nil, true
	case 19:
		vpAssume(hasRange)
		rp.DResponses, mandatoryGone = rp.DResponses[:1], true
	case 20:
		vpAssume(hasRange)
		rp.VResponses[1], mandatoryGone = nil, true
	case 21:
		vpAssume(hasRange)
		for k := range p.RangeProofs {
			p.RangeProofs[k] = []*rangeproof.Proof{nil}
		}
		mandatoryGone = true
	case 23: // two arrays altered together: both response arrays one short of the commitments
		vpAssume(hasRange && len(rp.DResponses) > 1 && len(rp.VResponses) > 1)
		rp.DResponses = rp.DResponses[:len(rp.DResponses)-1]
		rp.VResponses = rp.VResponses[:len(rp.VResponses)-1]
		mandatoryGone = true
	case 24: // ... or both one longer
		vpAssume(hasRange)
		rp.DResponses = append(append([]*big.Int{}, rp.DResponses...), rp.DResponses[0])
		rp.VResponses = append(append([]*big.Int{}, rp.VResponses...), rp.VResponses[0])
		mandatoryGone = true
	}
	ctx, nonce := vpBigBits("ctx", 256), vpBigBits("nonce", 80)
	issig := false
	if vpParam("bothflags", 0) == 1 {
		issig = vpBool("issig")
	}
	ok := ProofList{p}.Verify([]*gabikeys.PublicKey{pk}, ctx, nonce, issig, nil)
	vpAssert("verification of a shaped ProofD returns a verdict", ok || !ok)
	if mandatoryGone {
		vpAssert("a ProofD with a missing mandatory part is rejected", !ok)
	}
}

// C08-O2: ProofU shapes (issuance commitment proofs), same idea.
func vpC08_O2() {
	pk, _ := vpKeys(0, 3, 1024, false)
	p := &ProofU{U: vpAnyBig("U"), C: vpBigBits("c", 256), VPrimeResponse: vpBigBits("vp", 1500), SResponse: vpAnyBig("s")}
	if vpBool("hasUserResponses") {
		p.MUserResponses = map[int]*big.Int{vpInt("k1"): vpAnyBig("m1")}
	}
	gone := true
	switch vpChoose("mutation", 7) {
	case 0:
		gone = false
	case 1:
		p.U = nil
	case 2:
		p.C = nil
	case 3:
		p.VPrimeResponse = nil
	case 4:
		p.SResponse = nil
	case 5:
		vpAssume(p.MUserResponses != nil)
		for k := range p.MUserResponses {
			p.MUserResponses[k] = nil
		}
	case 6: // the proof list itself contains a nil proof
		ctx, nonce := vpBigBits("ctx", 256), vpBigBits("nonce", 80)
		ok := ProofList{nil}.Verify([]*gabikeys.PublicKey{pk}, ctx, nonce, false, nil)
		vpAssert("a list with a nil proof is rejected", !ok)
		return
	}
	ctx, nonce := vpBigBits("ctx", 256), vpBigBits("nonce", 80)
	ok := ProofList{p}.Verify([]*gabikeys.PublicKey{pk}, ctx, nonce, false, nil)
	vpAssert("verification of a shaped ProofU returns a verdict", ok || !ok)
	if gone {
		vpAssert("a ProofU with a missing mandatory part is rejected", !ok)
	}
}

// C08-O3: a cryptographically consistent proof that lacks the secret-key
// response: the library's own prover asked to disclose attribute 0. Alone and
// in a list next to an ordinary proof (sharing one challenge), verification
// returns a verdict - rejection - and does not panic.
func vpC08_O3() {
	pk, sk := vpKeys(0, 3, 1024, false)
	secret := vpBigBits("secret", 255)
	cred0 := vpCredentialFor(pk, sk, "x", secret, 1, 256)
	cred1 := vpCredentialFor(pk, sk, "y", secret, 1, 256)
	ctx, nonce := vpBigBits("ctx", 256), vpBigBits("nonce", 80)
	b0, err := cred0.CreateDisclosureProofBuilder([]int{0, 1}, nil, false)
	vpAssume(err == nil)
	b1, err := cred1.CreateDisclosureProofBuilder(nil, nil, false)
	vpAssume(err == nil)
	keys := []*gabikeys.PublicKey{pk, pk}
	switch vpChoose("arrangement", 3) {
	case 0:
		pl, err := ProofBuilderList{b0}.BuildProofList(ctx, nonce, false)
		vpAssume(err == nil)
		vpAssert("a proof disclosing the secret key is rejected", !pl.Verify(keys[:1], ctx, nonce, false, nil))
		vpAssert("a proof disclosing the secret key is rejected on its own", !pl[0].(*ProofD).Verify(pk, ctx, nonce, false))
	case 1:
		pl, err := ProofBuilderList{b0, b1}.BuildProofList(ctx, nonce, false)
		vpAssume(err == nil)
		vpAssert("a list containing such a proof is rejected", !pl.Verify(keys, ctx, nonce, false, nil))
	case 2:
		pl, err := ProofBuilderList{b1, b0}.BuildProofList(ctx, nonce, false)
		vpAssume(err == nil)
		vpAssert("a list containing such a proof is rejected", !pl.Verify(keys, ctx, nonce, false, nil))
	}
}

// C08-O4: misplaced sub-proofs. An honest, verifying disclosure proof (real
// prover; attribute 1 disclosed, 2 hidden, optionally with a true range
// statement on attribute 2) gets an additional, syntactically complete range
// proof with arbitrary content under a key that is not a hidden attribute's
// index (negative, disclosed, beyond the largest hidden index, len(R), 2^31):
// the list is malformed and the verdict is rejection, without a panic.
func vpC08_O4() {
	pk, sk := vpKeys(0, 4, 1024, false)
	cred := vpCredential(pk, sk, "a", 2, 256)
	ctx, nonce := vpBigBits("ctx", 256), vpBigBits("nonce", 80)
	var stmts map[int][]*rangeproof.Statement
	if vpBool("withRangeStatement") {
		bound := vpBig("bound")
		vpAssume(bound.Sign() >= 0 && cred.Attributes[2].Cmp(bound) >= 0 && new(big.Int).Sub(cred.Attributes[2], bound).BitLen() <= 255)
		stmts = map[int][]*rangeproof.Statement{2: {{Sign: 1, Factor: 1, Bound: bound}}}
	}
	proof, err := cred.CreateDisclosureProof([]int{1}, stmts, false, ctx, nonce)
	vpAssume(err == nil)
	// history: the object may have been verified (and found good) before the graft; what a
	// verification derived from the object must not survive a change of the object
	if vpBool("verifiedBeforeGraft") {
		vpAssert("the honest proof verifies before the graft", ProofList{proof}.Verify([]*gabikeys.PublicKey{pk}, ctx, nonce, false, nil))
	}
	clean := *proof
	clean.RangeProofs = map[int][]*rangeproof.Proof{}
	for k, v := range proof.RangeProofs {
		clean.RangeProofs[k] = v
	}
	if len(clean.RangeProofs) == 0 {
		clean.RangeProofs = nil
	}
	if proof.RangeProofs == nil {
		proof.RangeProofs = map[int][]*rangeproof.Proof{}
	}
	keys := []int{-1, 1, 3, 4, 7, 1 << 31}
	proof.RangeProofs[keys[vpChoose("graftKey", len(keys))]] = []*rangeproof.Proof{vpShapeRangeProof("graft", 3+vpChoose("rpn", 2))}
	vpAssert("a proof with a range proof at a non-hidden index is rejected", !ProofList{proof}.Verify([]*gabikeys.PublicKey{pk}, ctx, nonce, false, nil))
	vpAssert("the same proof without the graft verifies", ProofList{&clean}.Verify([]*gabikeys.PublicKey{pk}, ctx, nonce, false, nil))
}
