package common

import (
	"encoding/binary"
	"sync"
	"sync/atomic"
	"unsafe"
)

func init() {
	vpHarnesses["vpC20_O3"] = vpC20_O3
	vpHarnesses["vpC20_O1"] = vpC20_O1
}

// vpCounter reaches the generator's block counter whether it is declared as a plain uint64
// (accessed with sync/atomic functions) or as a typed atomic (whose value is its only sized field).
func vpCounter(c *CPRNG) *uint64 { return (*uint64)(unsafe.Pointer(&c.counter)) }

func vpNewCPRNG(block interface {
	BlockSize() int
	Encrypt(dst, src []byte)
	Decrypt(dst, src []byte)
}, start uint64) *CPRNG {
	c := &CPRNG{block: block}
	*vpCounter(c) = start
	return c
}

// vpLogCipher is a cipher.Block that records which counter blocks it is asked to encrypt.
type vpLogCipher struct {
	blocks []uint64 // plaintext block (counter value) of every Encrypt call
	sizes  []int    // length of the destination handed to Encrypt
	bad    bool     // a plaintext that is not a counter block (upper half non-zero)
}

func (l *vpLogCipher) BlockSize() int { return 16 }
func (l *vpLogCipher) Encrypt(dst, src []byte) {
	l.blocks = append(l.blocks, binary.LittleEndian.Uint64(src[:8]))
	l.sizes = append(l.sizes, len(dst))
	if binary.LittleEndian.Uint64(src[8:16]) != 0 {
		l.bad = true
	}
	for i := 0; i < 16 && i < len(dst); i++ {
		dst[i] = 0xA5
	}
}
func (l *vpLogCipher) Decrypt(dst, src []byte) {}

// C20-O1: keystream allocation of the shared generator. From an arbitrary
// counter state two reads of n1 and n2 bytes (1..40, thorough 1..200) - the
// second one reserving its blocks after the first, which covers both orders of
// the two atomic reservations by symmetry - encrypt exactly the consecutive
// blocks of their own reservation, the reservations do not overlap, every
// requested byte is written and nothing is written outside the buffers.
func vpC20_O1() {
	log := &vpLogCipher{}
	start := vpUint64("counter0")
	vpAssume(start < 1<<62) // no wrap-around of the 64-bit block counter
	c := vpNewCPRNG(log, start)
	// lengths around every block boundary up to maxlen
	max := vpParam("maxlen", 40)
	var lens []int
	for n := 1; n <= max; n++ {
		if n%16 <= 1 || n%16 == 15 || n == max || vpParam("alllengths", 0) == 1 {
			lens = append(lens, n)
		}
	}
	n1, n2 := lens[vpChoose("n1", len(lens))], lens[vpChoose("n2", len(lens))]
	b1, b2 := make([]byte, n1+1), make([]byte, n2+1) // one guard byte each
	k1, err1 := c.Read(b1[:n1])
	cut := len(log.blocks)
	k2, err2 := c.Read(b2[:n2])
	vpAssert("reads report the requested length", err1 == nil && err2 == nil && k1 == n1 && k2 == n2)
	nb1, nb2 := (n1+15)/16, (n2+15)/16
	vpAssert("each read encrypts exactly its number of blocks", cut == nb1 && len(log.blocks) == nb1+nb2)
	for i, blk := range log.blocks {
		want := start + uint64(i)
		vpAssert("blocks are the consecutive counter values of the reservations", blk == want)
	}
	vpAssert("plaintexts are counter blocks", !log.bad)
	vpAssert("counter advanced by the blocks handed out", *vpCounter(c) == start+uint64(nb1+nb2))
	vpAssert("guard bytes untouched", b1[n1] == 0 && b2[n2] == 0)
	vpAssert("last requested bytes written", b1[n1-1] == 0xA5 && b2[n2-1] == 0xA5 && b1[0] == 0xA5 && b2[0] == 0xA5)
	vpAssert("empty read is a no-op", func() bool { n, err := c.Read(nil); return n == 0 && err == nil && len(log.blocks) == nb1+nb2 }())
}

// vpIdCipher "encrypts" a block to itself, so that the keystream handed to a
// reader shows which counter blocks it was made from.
type vpIdCipher struct{}

func (vpIdCipher) BlockSize() int          { return 16 }
func (vpIdCipher) Encrypt(dst, src []byte) { copy(dst, src) }
func (vpIdCipher) Decrypt(dst, src []byte) {}

// C20-O3: two goroutines read from one generator concurrently (arbitrary
// counter state, lengths over the block boundaries). Under every schedule
// (bounded preemptions) there is no data race, each reader's keystream is made
// of consecutive counter blocks, the two readers' blocks are disjoint (no
// keystream is handed out twice) and the counter ends past both reservations.
func vpC20_O3() {
	start := vpUint64("counter0")
	vpAssume(start < 1<<62)
	lens := []int{8, 16, 24, 40}
	n := [2]int{lens[vpChoose("n1", len(lens))], lens[vpChoose("n2", len(lens))]}
	// natively the experiment is repeated with a start barrier, so that a schedule found
	// symbolically has a fair chance to occur; symbolically one round covers all schedules
	rounds := 1
	if vpNative() {
		rounds = 20000
	}
	for round := 0; round < rounds; round++ {
		vpC20ConcurrentReads(start, n)
	}
}

func vpC20ConcurrentReads(start uint64, n [2]int) {
	c := vpNewCPRNG(vpIdCipher{}, start)
	native := vpNative()
	var ready int32
	var res [2][]byte
	var errs [2]error
	var wg sync.WaitGroup
	wg.Add(2)
	for t := 0; t < 2; t++ {
		t := t
		go func() {
			defer wg.Done()
			b := make([]byte, n[t])
			if native {
				atomic.AddInt32(&ready, 1)
				for atomic.LoadInt32(&ready) < 2 {
				}
			}
			k, err := c.Read(b)
			if err == nil && k != n[t] {
				err = vpFreshError("short read")
			}
			res[t], errs[t] = b, err
		}()
	}
	wg.Wait()
	vpAssert("concurrent reads succeed", errs[0] == nil && errs[1] == nil)
	var first [2]uint64
	var nb [2]uint64
	for t := 0; t < 2; t++ {
		nb[t] = uint64((n[t] + 15) / 16)
		first[t] = binary.LittleEndian.Uint64(res[t][0:8])
		for i := uint64(0); i < nb[t]; i++ {
			vpAssert("a reader's keystream is made of consecutive counter blocks", binary.LittleEndian.Uint64(res[t][16*i:16*i+8]) == first[t]+i)
		}
	}
	vpAssert("concurrent readers never share a keystream block", first[0]+nb[0] <= first[1] || first[1]+nb[1] <= first[0])
	vpAssert("blocks come from the reserved range", first[0] >= start && first[1] >= start && first[0]+nb[0] <= start+nb[0]+nb[1] && first[1]+nb[1] <= start+nb[0]+nb[1])
	vpAssert("counter ends past both reservations", *vpCounter(c) == start+nb[0]+nb[1])
}
