package common

import (
	"crypto/sha256"
	"fmt"
	gobig "math/big"

	"github.com/privacybydesign/gabi/big"
)

func init() {
	vpHarnesses["vpC15_O1"] = vpC15_O1
	vpHarnesses["vpC15_O2"] = vpC15_O2
}

// ---- independent reference: DER encoding of SEQUENCE{[BOOLEAN TRUE,] INTEGER count, INTEGER values...} ----

func vpDerLen(n int) []byte {
	if n < 128 {
		return []byte{byte(n)}
	}
	var b []byte
	for m := n; m > 0; m >>= 8 {
		b = append([]byte{byte(m)}, b...)
	}
	return append([]byte{0x80 | byte(len(b))}, b...)
}

func vpDerInt(x *gobig.Int) []byte {
	var body []byte
	switch x.Sign() {
	case 0:
		body = []byte{0}
	case 1:
		body = x.Bytes()
		if body[0]&0x80 != 0 {
			body = append([]byte{0}, body...)
		}
	default:
		// two's complement of a negative number, minimal length
		n := len(x.Bytes()) + 1
		mod := new(gobig.Int).Lsh(gobig.NewInt(1), uint(8*n))
		body = new(gobig.Int).Add(mod, x).Bytes()
		for len(body) < n {
			body = append([]byte{0}, body...)
		}
		for len(body) > 1 && body[0] == 0xff && body[1]&0x80 != 0 {
			body = body[1:]
		}
	}
	return append(append([]byte{0x02}, vpDerLen(len(body))...), body...)
}

// vpxSpecDigest is the specification of the Fiat-Shamir hash. The symbolic
// executor replaces it by the uninterpreted SHA-256(DER(...)) of the same
// element list; natively it is this independent implementation.
func vpxSpecDigest(values []*big.Int, issig bool) *big.Int {
	var body []byte
	if issig {
		body = append(body, 0x01, 0x01, 0xff)
	}
	body = append(body, vpDerInt(gobig.NewInt(int64(len(values))))...)
	for _, v := range values {
		body = append(body, vpDerInt(v.Go())...)
	}
	seq := append(append([]byte{0x30}, vpDerLen(len(body))...), body...)
	sum := sha256.Sum256(seq)
	return new(big.Int).SetBytes(sum[:])
}

// C15-O1: HashCommit equals the specification for lists of 0..4 arbitrary
// integers (negative ones included) and both session kinds; GetHashNumber
// equals its limb-wise specification; digests of different element lists differ.
func vpC15_O1() {
	n := vpChoose("n", vpParam("maxlen", 4)+1)
	vals := make([]*big.Int, n)
	for i := range vals {
		vals[i] = vpBig(fmt.Sprintf("v%d", i))
	}
	if vpBool("issig") {
		vpAssert("HashCommit equals its specification (signature session)", HashCommit(vals, true).Cmp(vpxSpecDigest(vals, true)) == 0)
		vpAssert("signature and disclosure sessions never share a digest", HashCommit(vals, true).Cmp(HashCommit(vals, false)) != 0)
	} else {
		vpAssert("HashCommit equals its specification (disclosure session)", HashCommit(vals, false).Cmp(vpxSpecDigest(vals, false)) == 0)
	}
	// sensitivity: another list of the same length with one differing element hashes differently
	if n > 0 {
		other := append([]*big.Int{}, vals...)
		j := vpChoose("j", n)
		other[j] = vpBig("w")
		vpAssume(other[j].Cmp(vals[j]) != 0)
		vpAssert("a changed element changes the digest", HashCommit(other, false).Cmp(HashCommit(vals, false)) != 0)
		if n > 1 {
			k := vpChoose("k", n)
			vpAssume(k != j && vals[k].Cmp(vals[j]) != 0)
			sw := append([]*big.Int{}, vals...)
			sw[j], sw[k] = sw[k], sw[j]
			vpAssert("a changed order changes the digest", HashCommit(sw, false).Cmp(HashCommit(vals, false)) != 0)
		}
		vpAssert("a dropped element changes the digest", HashCommit(vals[:n-1], false).Cmp(HashCommit(vals, false)) != 0)
	}
}

// C15-O2: GetHashNumber(a, b, index, bitlen) = sum_j H(a?, b?, index, j) << 256j for j < ceil(bitlen/256).
func vpC15_O2() {
	var a, b *big.Int
	if vpBool("hasA") {
		a = vpBig("a")
	}
	if vpBool("hasB") {
		b = vpBig("b")
	}
	index := vpIntRange("index", -3, 1000)
	bitlen := uint(vpIntRange("bitlen", 0, 1024))
	got := GetHashNumber(a, b, index, bitlen)
	want := big.NewInt(0)
	for j := 0; uint(256*j) < bitlen; j++ {
		var in []*big.Int
		if a != nil {
			in = append(in, a)
		}
		if b != nil {
			in = append(in, b)
		}
		in = append(in, big.NewInt(int64(index)), big.NewInt(int64(j)))
		limb := vpxSpecDigest(in, false)
		want.Add(want, new(big.Int).Lsh(limb, uint(256*j)))
	}
	vpAssert("GetHashNumber equals its limb-wise specification", got.Cmp(want) == 0)
}
