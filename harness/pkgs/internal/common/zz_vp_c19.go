package common

import (
	"crypto/rand"
	"fmt"

	"github.com/privacybydesign/gabi/big"
)

func init() {
	vpHarnesses["vpC19_RandomPrime"] = vpC19_RandomPrime
	vpHarnesses["vpC19_PrimeSqrt"] = vpC19_PrimeSqrt
	vpHarnesses["vpC19_FourSquares"] = vpC19_FourSquares
	vpHarnesses["vpC19_FastMod"] = vpC19_FastMod
	vpHarnesses["vpC19_ModInverse"] = vpC19_ModInverse
	vpHarnesses["vpC19_Crt"] = vpC19_Crt
	vpHarnesses["vpC19_Legendre"] = vpC19_Legendre
	vpHarnesses["vpC19_ModPow"] = vpC19_ModPow
	vpHarnesses["vpC19_ModSqrt4"] = vpC19_ModSqrt4
}

// C19 FastMod: for every modulus p = 2^b - c (b = 8, thorough 10; 1 <= c <
// 2^(b/2)) and every x in [-2^(2b), 2^(3b)), FastMod.Mod returns x mod p (the
// non-negative residue), also when the result operand aliases the argument.
func vpC19_FastMod() {
	b := vpParam("bits", 8)
	c := 1 + vpChoose("c", (1<<(b/2))-1) // every c in [1, 2^(b/2)): one concrete modulus per path
	p := new(big.Int).Sub(new(big.Int).Lsh(big.NewInt(1), uint(b)), big.NewInt(int64(c)))
	var m FastMod
	m.Set(p)
	// x in [-2^(2b), 0) or [0, 2^(3b)): two variables so that interval reasoning sees the sign
	var x *big.Int
	if vpBool("negative") {
		x = vpBigRange("xneg", new(big.Int).Neg(new(big.Int).Lsh(big.NewInt(1), uint(2*b))), big.NewInt(-1))
	} else {
		x = vpBigRange("x", big.NewInt(0), new(big.Int).Sub(new(big.Int).Lsh(big.NewInt(1), uint(vpParam("xbits", 3*b))), big.NewInt(1)))
	}
	want := new(big.Int).Mod(x, p)
	var got *big.Int
	if vpBool("alias") {
		xc := new(big.Int).Set(x)
		got = m.Mod(xc, xc)
		vpAssert("aliased call returns its result operand", got == xc)
	} else {
		ret := new(big.Int)
		got = m.Mod(ret, x)
		vpAssert("call returns its result operand", got == ret)
	}
	vpAssert("FastMod.Mod equals the non-negative residue", got.Cmp(want) == 0)
}

// C19 ModInverse: for 1 <= a < n <= 2^w the helper reports an inverse exactly
// when gcd(a, n) = 1 and then 0 < ia < n with a*ia = 1 (mod n).
func vpC19_ModInverse() {
	w := vpParam("width", 6)
	lim := new(big.Int).Lsh(big.NewInt(1), uint(w))
	n := vpBigRange("n", big.NewInt(2), lim)
	if vpParam("splitn", 0) == 1 {
		// case split on the modulus: one concrete n per path, a stays symbolic
		n = big.NewInt(int64(2 + vpChoose("nc", (1<<w)-1)))
	}
	a := vpBigRange("a", big.NewInt(1), lim)
	vpAssume(a.Cmp(n) < 0)
	ia, ok := ModInverse(a, n)
	g := new(big.Int).GCD(nil, nil, a, n)
	vpAssert("inverse reported iff coprime", ok == (g.Cmp(big.NewInt(1)) == 0))
	if ok {
		vpAssert("inverse lies in (0, n)", ia.Sign() > 0 && ia.Cmp(n) < 0)
		prod := new(big.Int).Mul(a, ia)
		vpAssert("a * inverse = 1 mod n", prod.Mod(prod, n).Cmp(big.NewInt(1)) == 0)
	} else {
		vpAssert("no value is guessed when there is no inverse", ia == nil)
	}
}

// C19 Crt: for coprime moduli pa, pb <= 2^w and residues a < pa, b < pb the
// result is the unique x in [0, pa*pb) with x = a (mod pa) and x = b (mod pb).
func vpC19_Crt() {
	w := vpParam("width", 5)
	lim := new(big.Int).Lsh(big.NewInt(1), uint(w))
	// every pair of coprime moduli in [2, 2^w]: concrete moduli, symbolic residues
	npairs := int(lim.Int64()) - 1
	pa, pb := big.NewInt(int64(2+vpChoose("pa", npairs))), big.NewInt(int64(2+vpChoose("pb", npairs)))
	vpAssume(new(big.Int).GCD(nil, nil, pa, pb).Cmp(big.NewInt(1)) == 0)
	a, b := vpBigRange("a", big.NewInt(0), lim), vpBigRange("b", big.NewInt(0), lim)
	vpAssume(a.Cmp(pa) < 0 && b.Cmp(pb) < 0)
	x := Crt(a, pa, b, pb)
	vpAssert("CRT result is reduced", x.Sign() >= 0 && x.Cmp(new(big.Int).Mul(pa, pb)) < 0)
	vpAssert("CRT result has the first residue", new(big.Int).Mod(x, pa).Cmp(a) == 0)
	vpAssert("CRT result has the second residue", new(big.Int).Mod(x, pb).Cmp(b) == 0)
}

// C19 LegendreSymbol: for the odd primes p <= 13 and every a in [0, 4p):
// 0 if p | a, 1 if a is a non-zero square mod p, -1 otherwise.
func vpC19_Legendre() {
	primes := []int64{3, 5, 7, 11, 13}
	p := primes[vpChoose("p", len(primes))]
	a := vpIntRange("a", 0, int(4*p-1))
	r := int64(a) % p
	isSquare := false
	for y := int64(1); y < p; y++ {
		if (y*y)%p == r {
			isSquare = true
		}
	}
	want := -1
	if r == 0 {
		want = 0
	} else if isSquare {
		want = 1
	}
	vpAssert("Legendre symbol is correct", LegendreSymbol(big.NewInt(int64(a)), big.NewInt(p)) == want)
}

// C19 ModPow: negative exponents go through the modular inverse, and the
// absence of an inverse is reported (small moduli, small exponents).
func vpC19_ModPow() {
	m := big.NewInt(int64(2 + vpChoose("m", 39))) // every modulus 2..40
	x := vpBigRange("x", big.NewInt(0), big.NewInt(39))
	vpAssume(x.Cmp(m) < 0)
	y := vpChoose("y", 5) - 2
	r, err := ModPow(x, big.NewInt(int64(y)), m)
	coprime := new(big.Int).GCD(nil, nil, x, m).Cmp(big.NewInt(1)) == 0
	if y < 0 && !coprime {
		vpAssert("missing inverse is reported", err != nil && r == nil)
		return
	}
	vpAssert("ModPow succeeds", err == nil && r != nil)
	if err != nil {
		return
	}
	// r * x^|y| = 1 (y < 0)   or   r = x^y (y >= 0), all mod m
	pw := big.NewInt(1)
	ay := y
	if ay < 0 {
		ay = -ay
	}
	for i := 0; i < ay; i++ {
		pw.Mul(pw, x)
	}
	pw.Mod(pw, m)
	if y >= 0 {
		vpAssert("ModPow with non-negative exponent", r.Cmp(pw) == 0)
	} else {
		chk := new(big.Int).Mul(r, pw)
		vpAssert("ModPow with negative exponent inverts", chk.Mod(chk, m).Cmp(new(big.Int).Mod(big.NewInt(1), m)) == 0)
		vpAssert("ModPow result is reduced", r.Sign() >= 0 && r.Cmp(m) < 0)
	}
}

// C19 ModSqrt, factor 4: a has a square root modulo 4 iff a mod 4 is 0 or 1,
// and the root returned squares to a modulo 4.
func vpC19_ModSqrt4() {
	a := vpBigRange("a", big.NewInt(0), big.NewInt(1000))
	r, ok := ModSqrt(a, []*big.Int{big.NewInt(4)})
	am := new(big.Int).Mod(a, big.NewInt(4)).Int64()
	vpAssert("existence of a root modulo 4 is reported correctly", ok == (am == 0 || am == 1))
	if ok {
		sq := new(big.Int).Mul(r, r)
		vpAssert("root modulo 4 squares to a", sq.Mod(sq, big.NewInt(4)).Int64() == am)
	}
}

// vpSymReader is the random source handed to RandomPrimeInRange: arbitrary
// bytes for the first candidates (natively: the replayed bytes, then crypto/rand).
type vpSymReader struct{ calls int }

func (r *vpSymReader) Read(p []byte) (int, error) {
	if r.calls >= 1 {
		// symbolically the rejection loop is cut after the first candidate
		if vpNative() {
			return rand.Read(p)
		}
		return 0, vpFreshError("no more random bytes")
	}
	for i := range p {
		p[i] = vpByte(fmt.Sprintf("rnd%d_%d", r.calls, i))
	}
	r.calls++
	return len(p), nil
}

// C19 RandomPrimeInRange: for interval shapes (start, length) over the byte
// boundaries (length = 0, 1, 7 mod 8; start below, at and above 64 bits) and
// arbitrary random bytes, a returned value p satisfies 2^start <= p <= 2^start
// + 2^length and passed the primality test; a start below 2 bits is refused.
// Bound: the first candidate of the rejection loop (later ones are handled by the same code).
func vpC19_RandomPrime() {
	cfgs := [][2]uint{{7, 8}, {16, 8}, {10, 5}, {12, 12}, {20, 16}, {30, 9}, {64, 16}, {65, 24}, {40, 17}, {9, 7}, {8, 1}}
	c := cfgs[vpChoose("cfg", len(cfgs))]
	p, err := RandomPrimeInRange(&vpSymReader{}, c[0], c[1])
	vpAssume(err == nil)
	lo := new(big.Int).Lsh(big.NewInt(1), c[0])
	hi := new(big.Int).Add(lo, new(big.Int).Lsh(big.NewInt(1), c[1]))
	vpAssert("random prime lies in the requested interval", p.Cmp(lo) >= 0 && p.Cmp(hi) <= 0)
	vpAssert("random prime passed the primality test and is odd", vpIsPrime(p) && p.Bit(0) == 1)
	_, err = RandomPrimeInRange(&vpSymReader{}, uint(vpChoose("tinyStart", 2)), c[1])
	vpAssert("a start below 2 bits is refused", err != nil)
}

// C19 SumFourSquares, the reduction steps around the randomised core: for every
// n in [0, 2^bits) the four returned values are non-negative and their squares
// sum to n, given that the core sumFourSquaresSpecial meets its contract on
// arguments that are 2 modulo 4 - and it is only ever called with such arguments.
func vpC19_FourSquares() {
	bits := vpParam("bits", 10)
	n := vpBigRange("n", big.NewInt(0), new(big.Int).Sub(new(big.Int).Lsh(big.NewInt(1), uint(bits)), big.NewInt(1)))
	orig := new(big.Int).Set(n)
	x, y, z, w := SumFourSquares(n)
	vpAssert("SumFourSquares leaves its argument alone", n.Cmp(orig) == 0)
	vpAssert("four squares are non-negative", x.Sign() >= 0 && y.Sign() >= 0 && z.Sign() >= 0 && w.Sign() >= 0)
	sum := new(big.Int).Mul(x, x)
	sum.Add(sum, new(big.Int).Mul(y, y))
	sum.Add(sum, new(big.Int).Mul(z, z))
	sum.Add(sum, new(big.Int).Mul(w, w))
	vpAssert("the four squares sum to n", sum.Cmp(orig) == 0)
}

// C19 PrimeSqrt (Tonelli-Shanks) for primes of every shape of p-1 = 2^S * Q that
// matters (p = 3 mod 4: 7; S = 2: 13; S = 4: 17, where the main loop runs more than
// once; thorough adds 23 and 41) and every a in [0, p): a root is reported exactly when a
// is a square modulo p, it is reduced and squares to a.
func vpC19_PrimeSqrt() {
	primes := []int64{2, 7, 13, 17}
	if vpParam("more", 0) == 1 {
		primes = append(primes, 23, 41)
	}
	p := primes[vpChoose("p", len(primes))]
	a := vpIntRange("a", 0, int(p-1))
	root, ok := PrimeSqrt(big.NewInt(int64(a)), big.NewInt(p))
	// reference: a is a square iff some x in [0, p) squares to it
	var hits []bool
	seen := map[int64]bool{}
	for x := int64(0); x < p; x++ {
		if sq := (x * x) % p; !seen[sq] {
			seen[sq] = true
			hits = append(hits, int64(a) == sq)
		}
	}
	isSquare := vpAny(hits...)
	vpAssert("PrimeSqrt reports a root exactly for squares", ok == isSquare)
	if ok {
		vpAssert("PrimeSqrt's root is reduced and squares to a", root != nil && root.Sign() >= 0 && root.Cmp(big.NewInt(p)) < 0 &&
			new(big.Int).Mod(new(big.Int).Mul(root, root), big.NewInt(p)).Int64() == int64(a))
	}
}

func init() {
	vpHarnesses["vpC19_RandomPrimeTop"] = vpC19_RandomPrimeTop
}

// vpTopReader hands out random bytes whose candidates lie among the sixteen highest values
// of the interval (all bits one but the low four), for the first two candidates.
type vpTopReader struct{ calls int }

func (r *vpTopReader) Read(p []byte) (int, error) {
	if r.calls >= 2 {
		if vpNative() {
			return rand.Read(p)
		}
		return 0, vpFreshError("no more random bytes")
	}
	for i := range p {
		p[i] = 0xff
	}
	low := vpByte(fmt.Sprintf("top%d", r.calls))
	vpAssume(low >= 0xf0)
	p[len(p)-1] = low
	r.calls++
	return len(p), nil
}

// C19-O11 (= C05-O6: the exponent e of a signature is drawn with this function and has to
// lie in its interval): RandomPrimeInRange at the top of the interval. For small intervals
// (primality exact in the engine) and random bytes that put the first two candidates among
// the sixteen highest values, whatever the function returns is a prime inside
// [2^start, 2^start + 2^length] - also when the first candidate is composite and no prime
// follows it inside the interval.
func vpC19_RandomPrimeTop() {
	cfgs := [][2]uint{{7, 8}, {10, 5}, {9, 7}, {11, 4}, {8, 6}}
	c := cfgs[vpChoose("cfg", len(cfgs))]
	p, err := RandomPrimeInRange(&vpTopReader{}, c[0], c[1])
	vpAssume(err == nil)
	lo := new(big.Int).Lsh(big.NewInt(1), c[0])
	hi := new(big.Int).Add(lo, new(big.Int).Lsh(big.NewInt(1), c[1]))
	vpAssert("a prime drawn near the top of the interval lies in the interval", p.Cmp(lo) >= 0 && p.Cmp(hi) <= 0)
	vpAssert("a prime drawn near the top of the interval is prime", vpIsPrime(p))
}

func init() {
	vpHarnesses["vpC19_ModSqrtProduct"] = vpC19_ModSqrtProduct
}

// C19-O12: square roots modulo a product of given coprime factors, from the real code of
// ModSqrt, PrimeSqrt and Crt: for the factor lists (3,7), (7,3,5)... - two and three prime
// factors, and the factor 4 next to primes - and every a in [0, n): a root is reported
// exactly when a is a square modulo the product, and it squares to a.
func vpC19_ModSqrtProduct() {
	lists := [][]int64{{3, 7}, {3, 5, 7}, {7, 3, 5}, {4, 3, 7}, {3, 7, 11}}
	fs := lists[vpChoose("factors", len(lists))]
	n := int64(1)
	var factors []*big.Int
	for _, f := range fs {
		n *= f
		factors = append(factors, big.NewInt(f))
	}
	a := vpBigRange("a", big.NewInt(0), big.NewInt(n-1))
	// reference: the set of squares modulo n
	isSquare := make([]bool, 0, n)
	seen := map[int64]bool{}
	for r := int64(0); r < n; r++ {
		seen[r*r%n] = true
	}
	for v := int64(0); v < n; v++ {
		if seen[v] {
			isSquare = append(isSquare, a.Cmp(big.NewInt(v)) == 0)
		}
	}
	r, ok := ModSqrt(new(big.Int).Set(a), factors)
	vpAssert("existence of a root modulo a product of factors is reported correctly", ok == vpAny(isSquare...))
	if ok {
		sq := new(big.Int).Mul(r, r)
		sq.Mod(sq, big.NewInt(n))
		vpAssert("the root modulo a product of factors squares to a", sq.Cmp(a) == 0)
	}
}
