#!/bin/sh
# runs every registered quick check and prints one summary line each
cd "$(dirname "$0")/.." || exit 2
for p in $(python3 -c "import json;print(' '.join(c['property_id'] for c in json.load(open('MANIFEST.json'))['checks']))"); do
  s=$(date +%s); out=$(./check $p ${1:-quick} 2>&1); rc=$?; e=$(date +%s)
  echo "$p rc=$rc $((e-s))s $(echo "$out" | tail -1 | cut -c1-160)"
  echo "$out" | grep "MACHINERY\|VIOLATION\|KNOWN-FINDING" | cut -c1-220 | head -5
done
