#!/usr/bin/env python3
"""Regenerates /verif/MANIFEST.json from tools/checks.json (claimed checks) and properties.jsonl."""
import json, os
here = os.path.dirname(os.path.abspath(__file__))
root = os.path.dirname(here)
props = [json.loads(l) for l in open(os.path.join(root, 'properties.jsonl'))]
src = json.load(open(os.path.join(here, 'checks.json')))
GOENV = "PATH=/opt/veriftools/go1.26.8/bin:$PATH GOTOOLCHAIN=local GOFLAGS=-mod=mod GOPROXY=off GOSUMDB=off"
m = {
 "version": 1,
 "setup_cmd": f"cd /verif/engine && {GOENV} go build -o ../bin/gsx ./cmd/gsx",
 "hooks": {
  "guard": "verif",
  "enable": "no hooks in /repo: harnesses are in-package files injected through packages.Config.Overlay (symbolic run) and go test -overlay (native replay); /repo is never written by a check",
  "baseline_off_cmd": f"cd /repo && {GOENV} go test -vet=off -count=1 -timeout 25m ./...",
  "source_commits": [],
  "add_only": True,
 },
 "engines": [{"name": "gsx", "path": "engine/", "serves_properties": sorted(src["checks"].keys()),
   "kind_free_text": "own go/ssa symbolic executor (forking, heap, maps, big.Int as SMT Int with algebraic group facets) -> SMT-LIB2 -> z3 4.8.12 / z3 5.1.0 / cvc5 1.0.3 portfolio; counterexamples replayed natively with go test -overlay"}],
 "checks": [],
 "notes": src.get("notes", ""),
 "not_applicable": [],
}
for p in props:
    pid = p["id"]
    c = src["checks"].get(pid)
    if c is None:
        m["not_applicable"].append({"property_id": pid, "reason": src["not_applicable"].get(pid, "no check built yet; see DESIGN.md section 4")})
        continue
    m["checks"].append({
      "property_id": pid,
      "quick_cmd": f"./check {pid} quick",
      "thorough_cmd": f"./check {pid} thorough",
      "evidence_file": f"/verif/evidence/{pid}.json",
      "replay_cmd_template": "./bin/gsx replay {path}",
      "engine": "gsx",
      "level_claimed": {"category": "model_checking", "text": c["text"], "design_ref": c.get("design_ref", "DESIGN.md section 4")},
      "level_note": c["note"],
      "technique": c.get("technique", "bounded symbolic execution of the real Go SSA into SMT-LIB2 (solver portfolio z3/z3-new/cvc5), counterexamples replayed natively"),
    })
json.dump(m, open(os.path.join(root, 'MANIFEST.json'), 'w'), indent=1)
print("checks:", len(m["checks"]), "not_applicable:", len(m["not_applicable"]))
