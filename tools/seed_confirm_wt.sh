#!/bin/bash
# usage: seed_confirm_wt.sh <seed id> <worktree> <property>
# Like seed_confirm.sh, but the property's quick check runs against the scratch worktree itself
# (VERIF_REPO=<worktree>): /repo is never touched, so background runs against /repo are not disturbed.
set -u
id=$1; wt=$2; prop=$3
export PATH=/opt/veriftools/go1.26.8/bin:$PATH GOTOOLCHAIN=local GOFLAGS=-mod=mod GOPROXY=off GOSUMDB=off
out=/verif/seeded/$id; mkdir -p $out/replay
cd $wt || exit 2
demo=$(git status --short | grep '^??' | grep '_test.go' | awk '{print $2}' | head -1)
demopkg=./$(dirname $demo)
git diff > $out/patch.diff
cp $demo $out/$(basename $demo).txt
[ -f SEED_NOTES.md ] && cp SEED_NOTES.md $out/SEED_NOTES.md
t=$(mktemp -d)
echo "== demo with change (expect FAIL)"; go test -vet=off -count=1 -run TestSeedDemo $demopkg > $t/a.txt 2>&1; a=$?; tail -3 $t/a.txt
mv $demo $t/demo_hold.go
echo "== existing suite with change (expect ok)"; go test -vet=off -count=1 ./... > $t/b.txt 2>&1; b=$?; grep -v "^ok\|no test files" $t/b.txt | head -5
git apply -R $out/patch.diff
mv $t/demo_hold.go $demo
echo "== demo without change (expect PASS)"; go test -vet=off -count=1 -run TestSeedDemo $demopkg > $t/c.txt 2>&1; c=$?; tail -2 $t/c.txt
git apply $out/patch.diff
echo "demo_with_change_rc=$a suite_with_change_rc=$b demo_without_change_rc=$c"
# the check runs on the worktree with the change; the demo file is moved out of it meanwhile
mv $demo $t/demo_hold.go
keep=$(mktemp -d); cp -a /verif/evidence/$prop.json $keep/ 2>/dev/null
cd /verif && VERIF_REPO=$wt ./check $prop quick > $t/check.txt 2>&1; rc=$?
mv $t/demo_hold.go $wt/$demo
rm -f $out/replay/*; cp -a /verif/evidence/replay/$prop-* $out/replay/ 2>/dev/null
rm -f /verif/evidence/replay/$prop-*; cp -a $keep/$prop.json /verif/evidence/ 2>/dev/null; rm -rf $keep
(cd /verif && git checkout -- evidence 2>/dev/null)
grep -c VIOLATION $t/check.txt | sed 's/^/violations reported: /'
grep "VIOLATION\|MACHINERY" $t/check.txt | cut -c1-200 | head -4
tail -1 $t/check.txt | cut -c1-200
echo "check_rc=$rc"
python3 - <<PY
import json
json.dump({"id":"$id","property":"$prop","worktree_confirmation":{"demo_with_change_rc":$a,"existing_suite_with_change_rc":$b,"demo_without_change_rc":$c},
 "check_cmd":"VERIF_REPO=<worktree with the change> ./check $prop quick","check_rc":$rc,"detected": $rc==1}, open("$out/meta.json","w"), indent=1)
PY
rm -rf $t
