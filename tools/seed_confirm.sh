#!/bin/bash
# usage: seed_confirm.sh <seed id> <worktree> <property>
# Confirms a seeded change in its scratch worktree (suite passes, demo fails with / passes without the change),
# stores it under /verif/seeded/<id>/, then runs the property's quick check against it in /repo and reverts.
set -u
id=$1; wt=$2; prop=$3
# whatever happens (timeout, kill), /repo is left as it was
trap 'git -C /repo checkout -- . 2>/dev/null' EXIT INT TERM
export PATH=/opt/veriftools/go1.26.8/bin:$PATH GOTOOLCHAIN=local GOFLAGS=-mod=mod GOPROXY=off GOSUMDB=off
out=/verif/seeded/$id; mkdir -p $out
cd $wt || exit 2
demo=$(git status --short | grep '^??' | grep '_test.go' | awk '{print $2}' | head -1)
demopkg=./$(dirname $demo)
git diff > $out/patch.diff
cp $demo $out/$(basename $demo).txt
[ -f SEED_NOTES.md ] && cp SEED_NOTES.md $out/SEED_NOTES.md
echo "== demo with change (expect FAIL)"; go test -vet=off -count=1 -run TestSeedDemo $demopkg > /tmp/seed_a.txt 2>&1; a=$?; tail -3 /tmp/seed_a.txt
mv $demo /tmp/seed_demo_hold.go
echo "== existing suite with change (expect ok)"; go test -vet=off -count=1 ./... > /tmp/seed_b.txt 2>&1; b=$?; grep -v "^ok\|no test files" /tmp/seed_b.txt | head -5
mv /tmp/seed_demo_hold.go $demo
git apply -R $out/patch.diff
echo "== demo without change (expect PASS)"; go test -vet=off -count=1 -run TestSeedDemo $demopkg > /tmp/seed_c.txt 2>&1; c=$?; tail -2 /tmp/seed_c.txt
git apply $out/patch.diff
echo "demo_with_change_rc=$a suite_with_change_rc=$b demo_without_change_rc=$c"
cd /repo && git apply $out/patch.diff || { echo "PATCH DOES NOT APPLY"; exit 2; }
# the evidence of the unchanged tree is kept: a run against a seeded tree must not replace it
keep=$(mktemp -d); cp -a /verif/evidence/$prop.json $keep/ 2>/dev/null; mkdir -p $keep/replay; cp -a /verif/evidence/replay/$prop-* $keep/replay/ 2>/dev/null
cd /verif && ./check $prop quick > /tmp/seed_check.txt 2>&1; rc=$?
git -C /repo checkout -- .
mkdir -p $out/replay; rm -f $out/replay/*; cp -a /verif/evidence/replay/$prop-* $out/replay/ 2>/dev/null
rm -f /verif/evidence/replay/$prop-*; cp -a $keep/$prop.json /verif/evidence/ 2>/dev/null; cp -a $keep/replay/. /verif/evidence/replay/ 2>/dev/null; rm -rf $keep
grep -c VIOLATION /tmp/seed_check.txt | sed 's/^/violations reported: /'
grep "VIOLATION\|MACHINERY" /tmp/seed_check.txt | cut -c1-200 | head -4
tail -1 /tmp/seed_check.txt | cut -c1-200
echo "check_rc=$rc"
python3 - <<PY
import json
json.dump({"id":"$id","property":"$prop","worktree_confirmation":{"demo_with_change_rc":$a,"existing_suite_with_change_rc":$b,"demo_without_change_rc":$c},
 "check_cmd":"./check $prop quick","check_rc":$rc,"detected": $rc==1}, open("$out/meta.json","w"), indent=1)
PY
