package smt

import "sync"

var varCache sync.Map // term ID -> map[int]struct{} of variable/UF ids

var ufIDs sync.Map // UF name -> pseudo id
var ufMu sync.Mutex
var ufNext = -1

func ufID(name string) int {
	if v, ok := ufIDs.Load(name); ok {
		return v.(int)
	}
	ufMu.Lock()
	defer ufMu.Unlock()
	if v, ok := ufIDs.Load(name); ok {
		return v.(int)
	}
	ufNext--
	ufIDs.Store(name, ufNext)
	return ufNext
}

// VarsOf returns the set of variable ids (and pseudo ids of uninterpreted
// function symbols) occurring in t.
func VarsOf(t *Term) map[int]struct{} {
	if v, ok := varCache.Load(t.ID); ok {
		return v.(map[int]struct{})
	}
	r := map[int]struct{}{}
	switch t.Op {
	case OVar:
		r[t.ID] = struct{}{}
	case OApp:
		r[ufID(t.Name)] = struct{}{}
	}
	for _, a := range t.Args {
		for k := range VarsOf(a) {
			r[k] = struct{}{}
		}
	}
	varCache.Store(t.ID, r)
	return r
}

// Slice returns the conjuncts of pc that are (transitively) connected to the
// variables of the seed terms. If pc is satisfiable, pc AND seeds is
// satisfiable iff Slice(pc, seeds) AND seeds is.
func Slice(pc []*Term, seeds ...*Term) []*Term {
	want := map[int]struct{}{}
	for _, s := range seeds {
		for k := range VarsOf(s) {
			want[k] = struct{}{}
		}
	}
	if len(want) == 0 {
		return nil
	}
	used := make([]bool, len(pc))
	var out []*Term
	changed := true
	for changed {
		changed = false
		for i, c := range pc {
			if used[i] {
				continue
			}
			vs := VarsOf(c)
			hit := false
			for k := range vs {
				if _, ok := want[k]; ok {
					hit = true
					break
				}
			}
			if hit {
				used[i] = true
				out = append(out, c)
				for k := range vs {
					if _, ok := want[k]; !ok {
						want[k] = struct{}{}
						changed = true
					}
				}
			}
		}
	}
	return out
}

// Subst replaces every occurrence of variable `from` by `to` in t.
func Subst(t, from, to *Term) *Term {
	memo := map[int]*Term{}
	var rec func(x *Term) *Term
	rec = func(x *Term) *Term {
		if x == from {
			return to
		}
		if len(x.Args) == 0 {
			return x
		}
		if _, has := VarsOf(x)[from.ID]; !has {
			return x
		}
		if r, ok := memo[x.ID]; ok {
			return r
		}
		args := make([]*Term, len(x.Args))
		for i, a := range x.Args {
			args[i] = rec(a)
		}
		var r *Term
		switch x.Op {
		case OSum:
			l := newLin()
			l.c.Set(x.Rat)
			for i, a := range args {
				l.add(coerce(a, x.Sort), x.Coef[i])
			}
			r = l.build(x.Sort)
		case OMul:
			r = args[0]
			for _, a := range args[1:] {
				r = Mul(r, a)
			}
		case ODiv:
			r = Div(args[0], args[1])
		case OMod:
			r = Mod(args[0], args[1])
		case ORDiv:
			r = RDiv(args[0], args[1])
		case OToReal:
			r = ToReal(args[0])
		case OIte:
			r = Ite(args[0], args[1], args[2])
		case OEq:
			r = Eq(args[0], args[1])
		case OLe:
			r = Le(args[0], args[1])
		case OLt:
			r = Lt(args[0], args[1])
		case OAnd:
			r = And(args...)
		case OOr:
			r = Or(args...)
		case ONot:
			r = Not(args[0])
		case OApp:
			r = App(x.Name, x.Sort, x.Lo, x.Hi, args...)
		case OBitLen:
			r = BitLen(args[0])
		default:
			panic("Subst: unhandled op")
		}
		memo[x.ID] = r
		return r
	}
	return rec(t)
}
