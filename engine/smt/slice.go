package smt

import "sync"

var varCache sync.Map // term ID -> map[int]struct{} of variable/UF ids

var ufIDs sync.Map // UF name -> pseudo id
var ufMu sync.Mutex
var ufNext = -1

func ufID(name string) int {
	if v, ok := ufIDs.Load(name); ok {
		return v.(int)
	}
	ufMu.Lock()
	defer ufMu.Unlock()
	if v, ok := ufIDs.Load(name); ok {
		return v.(int)
	}
	ufNext--
	ufIDs.Store(name, ufNext)
	return ufNext
}

// VarsOf returns the set of variable ids (and pseudo ids of uninterpreted
// function symbols) occurring in t.
func VarsOf(t *Term) map[int]struct{} {
	if v, ok := varCache.Load(t.ID); ok {
		return v.(map[int]struct{})
	}
	r := map[int]struct{}{}
	switch t.Op {
	case OVar:
		r[t.ID] = struct{}{}
	case OApp:
		r[ufID(t.Name)] = struct{}{}
	}
	for _, a := range t.Args {
		for k := range VarsOf(a) {
			r[k] = struct{}{}
		}
	}
	varCache.Store(t.ID, r)
	return r
}

// Slice returns the conjuncts of pc that are (transitively) connected to the
// variables of the seed terms. If pc is satisfiable, pc AND seeds is
// satisfiable iff Slice(pc, seeds) AND seeds is.
func Slice(pc []*Term, seeds ...*Term) []*Term {
	want := map[int]struct{}{}
	for _, s := range seeds {
		for k := range VarsOf(s) {
			want[k] = struct{}{}
		}
	}
	if len(want) == 0 {
		return nil
	}
	used := make([]bool, len(pc))
	var out []*Term
	changed := true
	for changed {
		changed = false
		for i, c := range pc {
			if used[i] {
				continue
			}
			vs := VarsOf(c)
			hit := false
			for k := range vs {
				if _, ok := want[k]; ok {
					hit = true
					break
				}
			}
			if hit {
				used[i] = true
				out = append(out, c)
				for k := range vs {
					if _, ok := want[k]; !ok {
						want[k] = struct{}{}
						changed = true
					}
				}
			}
		}
	}
	return out
}
