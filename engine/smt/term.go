// Package smt is a small hash-consed term DAG with simplifying constructors,
// interval tracking for integer terms and an SMT-LIB2 printer.
package smt

import (
	"fmt"
	"math/big"
	"sort"
	"strings"
	"sync"
)

type Sort uint8

const (
	Bool Sort = iota
	Int
	Real
)

func (s Sort) String() string {
	switch s {
	case Bool:
		return "Bool"
	case Int:
		return "Int"
	}
	return "Real"
}

type Op uint8

const (
	OConst Op = iota // numeric constant (Int or Real), value in Rat
	OBool
	OVar
	OSum // const + sum coeff_i*arg_i ; Coef[i] belongs to Args[i]; Rat is the constant
	OMul // nonlinear product of >=2 non-constant args
	ODiv // SMT-LIB integer div (euclidean)
	OMod // SMT-LIB integer mod (euclidean)
	ORDiv
	OToReal
	OIte
	OEq
	OLe
	OLt
	OAnd
	OOr
	ONot
	OApp    // uninterpreted function application, Name
	OBitLen // bit length of |arg| (Int)
)

type Term struct {
	Op   Op
	Sort Sort
	Args []*Term
	Coef []*big.Rat // OSum
	Rat  *big.Rat   // OConst, OSum constant
	B    bool
	Name string
	ID   int
	// interval (Int sort only); nil = unbounded on that side
	Lo, Hi *big.Int
}

var (
	mu    sync.Mutex
	table = map[string]*Term{}
	nextI = 0
)

// NumTerms returns the number of distinct terms created so far.
func NumTerms() int { mu.Lock(); defer mu.Unlock(); return nextI }

func intern(t *Term) *Term {
	var sb strings.Builder
	fmt.Fprintf(&sb, "%d/%d/%s/", t.Op, t.Sort, t.Name)
	if t.Rat != nil {
		sb.WriteString(t.Rat.String())
	}
	if t.Op == OBool {
		fmt.Fprintf(&sb, "%v", t.B)
	}
	if t.Op == OVar || t.Op == OApp {
		// bounds are part of a variable's identity: different paths may reuse a fresh name with other bounds
		if t.Lo != nil {
			sb.WriteString("[" + t.Lo.String())
		}
		if t.Hi != nil {
			sb.WriteString("]" + t.Hi.String())
		}
	}
	for i, a := range t.Args {
		fmt.Fprintf(&sb, ",%d", a.ID)
		if t.Coef != nil {
			sb.WriteString("*" + t.Coef[i].String())
		}
	}
	key := sb.String()
	mu.Lock()
	defer mu.Unlock()
	if o, ok := table[key]; ok {
		return o
	}
	nextI++
	t.ID = nextI
	table[key] = t
	return t
}

var (
	True  = intern(&Term{Op: OBool, Sort: Bool, B: true})
	False = intern(&Term{Op: OBool, Sort: Bool, B: false})
)

func BoolC(b bool) *Term {
	if b {
		return True
	}
	return False
}

func IntC(v *big.Int) *Term {
	return intern(&Term{Op: OConst, Sort: Int, Rat: new(big.Rat).SetInt(v), Lo: v, Hi: v})
}
var smallInts [2049]*Term

func init() {
	for v := int64(-1024); v <= 1024; v++ {
		smallInts[v+1024] = IntC(big.NewInt(v))
	}
}

func I64(v int64) *Term {
	if v >= -1024 && v <= 1024 {
		return smallInts[v+1024]
	}
	return IntC(big.NewInt(v))
}
func RealC(r *big.Rat) *Term {
	return intern(&Term{Op: OConst, Sort: Real, Rat: new(big.Rat).Set(r)})
}
func numC(s Sort, r *big.Rat) *Term {
	if s == Int {
		if !r.IsInt() {
			panic("non-integer constant of sort Int")
		}
		return IntC(new(big.Int).Set(r.Num()))
	}
	return RealC(r)
}

// varBounds remembers declared bounds per variable name so that a name is
// always used with the same sort and bounds.
func Var(name string, s Sort, lo, hi *big.Int) *Term {
	return intern(&Term{Op: OVar, Sort: s, Name: name, Lo: lo, Hi: hi})
}

func (t *Term) IsConst() bool { return t.Op == OConst || t.Op == OBool }
func (t *Term) IsTrue() bool  { return t == True }
func (t *Term) IsFalse() bool { return t == False }

// ConstInt returns the value of an integer constant term.
func (t *Term) ConstInt() (*big.Int, bool) {
	if t.Op == OConst && t.Rat.IsInt() {
		return t.Rat.Num(), true
	}
	return nil, false
}
func (t *Term) ConstInt64() (int64, bool) {
	if v, ok := t.ConstInt(); ok && v.IsInt64() {
		return v.Int64(), true
	}
	return 0, false
}

var (
	rat0 = new(big.Rat)
	rat1 = big.NewRat(1, 1)
	bi0  = big.NewInt(0)
	bi1  = big.NewInt(1)
)

// ---------- linear sums ----------

type lin struct {
	c     *big.Rat
	terms map[int]*Term
	coef  map[int]*big.Rat
}

func newLin() *lin { return &lin{c: new(big.Rat), terms: map[int]*Term{}, coef: map[int]*big.Rat{}} }

func (l *lin) add(t *Term, k *big.Rat) {
	if k.Sign() == 0 {
		return
	}
	switch t.Op {
	case OConst:
		l.c.Add(l.c, new(big.Rat).Mul(k, t.Rat))
	case OSum:
		l.c.Add(l.c, new(big.Rat).Mul(k, t.Rat))
		for i, a := range t.Args {
			l.add(a, new(big.Rat).Mul(k, t.Coef[i]))
		}
	default:
		if c, ok := l.coef[t.ID]; ok {
			c.Add(c, k)
			if c.Sign() == 0 {
				delete(l.coef, t.ID)
				delete(l.terms, t.ID)
			}
		} else {
			l.coef[t.ID] = new(big.Rat).Set(k)
			l.terms[t.ID] = t
		}
	}
}

func (l *lin) build(s Sort) *Term {
	if len(l.terms) == 0 {
		return numC(s, l.c)
	}
	ids := make([]int, 0, len(l.terms))
	for id := range l.terms {
		ids = append(ids, id)
	}
	sort.Ints(ids)
	if len(ids) == 1 && l.c.Sign() == 0 && l.coef[ids[0]].Cmp(rat1) == 0 {
		return l.terms[ids[0]]
	}
	t := &Term{Op: OSum, Sort: s, Rat: new(big.Rat).Set(l.c)}
	for _, id := range ids {
		t.Args = append(t.Args, l.terms[id])
		t.Coef = append(t.Coef, l.coef[id])
	}
	if s == Int {
		t.Lo, t.Hi = sumBounds(t)
	}
	return intern(t)
}

func sumBounds(t *Term) (lo, hi *big.Int) {
	if !t.Rat.IsInt() {
		return nil, nil
	}
	lo = new(big.Int).Set(t.Rat.Num())
	hi = new(big.Int).Set(t.Rat.Num())
	for i, a := range t.Args {
		k := t.Coef[i]
		if !k.IsInt() {
			return nil, nil
		}
		kk := k.Num()
		alo, ahi := a.Lo, a.Hi
		if kk.Sign() < 0 {
			alo, ahi = ahi, alo
		}
		if lo != nil {
			if alo == nil {
				lo = nil
			} else {
				lo.Add(lo, new(big.Int).Mul(kk, alo))
			}
		}
		if hi != nil {
			if ahi == nil {
				hi = nil
			} else {
				hi.Add(hi, new(big.Int).Mul(kk, ahi))
			}
		}
		if lo == nil && hi == nil {
			return
		}
	}
	return
}

func sortOf(ts ...*Term) Sort {
	s := Int
	for _, t := range ts {
		if t.Sort == Real {
			s = Real
		}
		if t.Sort == Bool {
			panic("arithmetic on Bool term")
		}
	}
	return s
}

func coerce(t *Term, s Sort) *Term {
	if t.Sort == s {
		return t
	}
	if s == Real && t.Sort == Int {
		return ToReal(t)
	}
	panic("cannot coerce " + t.Sort.String() + " to " + s.String())
}

func Add(ts ...*Term) *Term {
	s := sortOf(ts...)
	l := newLin()
	for _, t := range ts {
		l.add(coerce(t, s), rat1)
	}
	return l.build(s)
}

func Sub(a, b *Term) *Term {
	s := sortOf(a, b)
	l := newLin()
	l.add(coerce(a, s), rat1)
	l.add(coerce(b, s), big.NewRat(-1, 1))
	return l.build(s)
}

func Neg(a *Term) *Term {
	l := newLin()
	l.add(a, big.NewRat(-1, 1))
	return l.build(a.Sort)
}

func Scale(a *Term, k *big.Rat) *Term {
	l := newLin()
	l.add(a, k)
	return l.build(a.Sort)
}

// maxDistribute bounds the size of sums that products are distributed over.
const maxDistribute = 48

// Distribute enables polynomial normal forms for Real products (decides many
// identities in the term layer instead of the solver). Off by default so that
// the SMT solver, not the rewriter, discharges the algebraic obligations.
var Distribute = false

func Mul(a, b *Term) *Term { return mulImpl(a, b, Distribute) }

// MulDist multiplies and always distributes over sums.
func MulDist(a, b *Term) *Term { return mulImpl(a, b, true) }

// Expand rewrites t into a sum of monomials (polynomial normal form).
func Expand(t *Term) *Term {
	switch t.Op {
	case OSum:
		l := newLin()
		l.c.Set(t.Rat)
		for i, a := range t.Args {
			l.add(Expand(a), t.Coef[i])
		}
		return l.build(t.Sort)
	case OMul:
		r := Expand(t.Args[0])
		for _, a := range t.Args[1:] {
			r = MulDist(r, Expand(a))
		}
		return r
	case OToReal:
		return ToReal(Expand(t.Args[0]))
	}
	return t
}

// Monomials splits an expanded term into (coefficient, factors) pairs; the
// constant part has no factors.
func Monomials(t *Term) (coefs []*big.Rat, factors [][]*Term) {
	add := func(k *big.Rat, x *Term) {
		coefs = append(coefs, k)
		if x == nil {
			factors = append(factors, nil)
		} else if x.Op == OMul {
			factors = append(factors, x.Args)
		} else {
			factors = append(factors, []*Term{x})
		}
	}
	switch t.Op {
	case OConst:
		add(t.Rat, nil)
	case OSum:
		if t.Rat.Sign() != 0 {
			add(t.Rat, nil)
		}
		for i, a := range t.Args {
			add(t.Coef[i], a)
		}
	default:
		add(rat1, t)
	}
	return
}

// FromMonomial rebuilds coef * prod(factors).
func FromMonomial(s Sort, k *big.Rat, fs []*Term) *Term {
	r := numC(s, rat1)
	if s == Real {
		r = RealC(rat1)
	}
	for _, f := range fs {
		r = MulDist(r, f)
	}
	return Scale(r, k)
}

func mulImpl(a, b *Term, dist bool) *Term {
	s := sortOf(a, b)
	a, b = coerce(a, s), coerce(b, s)
	if a.Op == OConst {
		return Scale(b, a.Rat)
	}
	if b.Op == OConst {
		return Scale(a, b.Rat)
	}
	// distribute over sums so that polynomials reach a normal form
	aSum := a.Op == OSum && (len(a.Args) > 1 || a.Rat.Sign() != 0)
	bSum := b.Op == OSum && (len(b.Args) > 1 || b.Rat.Sign() != 0)
	if (dist && (aSum || bSum) && (len(a.Args)+1)*(len(b.Args)+1) <= 4096) || (Distribute && (aSum || bSum) && len(a.Args)*len(b.Args) <= maxDistribute && s == Real) {
		l := newLin()
		type mono struct {
			k *big.Rat
			t *Term // nil = constant 1
		}
		monos := func(t *Term) []mono {
			if t.Op != OSum {
				return []mono{{rat1, t}}
			}
			var ms []mono
			if t.Rat.Sign() != 0 {
				ms = append(ms, mono{t.Rat, nil})
			}
			for i, x := range t.Args {
				ms = append(ms, mono{t.Coef[i], x})
			}
			return ms
		}
		for _, ma := range monos(a) {
			for _, mb := range monos(b) {
				k := new(big.Rat).Mul(ma.k, mb.k)
				switch {
				case ma.t == nil && mb.t == nil:
					l.c.Add(l.c, k)
				case ma.t == nil:
					l.add(mb.t, k)
				case mb.t == nil:
					l.add(ma.t, k)
				default:
					l.add(mulMono(ma.t, mb.t, s), k)
				}
			}
		}
		return l.build(s)
	}
	ka, xa := splitCoef(a)
	kb, xb := splitCoef(b)
	return Scale(mulMono(xa, xb, s), new(big.Rat).Mul(ka, kb))
}

func nonZero(t *Term) bool {
	if t.Op == OToReal {
		t = t.Args[0]
	}
	if t.Op == OConst {
		return t.Rat.Sign() != 0
	}
	return t.Sort == Int && (t.Lo != nil && t.Lo.Sign() > 0 || t.Hi != nil && t.Hi.Sign() < 0)
}

// mulMono multiplies two non-sum terms (monomials), cancelling x * (n/x).
func mulMono(xa, xb *Term, s Sort) *Term {
	var fs []*Term
	for _, x := range []*Term{xa, xb} {
		if x.Op == OMul {
			fs = append(fs, x.Args...)
		} else {
			fs = append(fs, x)
		}
	}
	// cancellation of (n / d) * d  when d is known to be non-zero
	changed := true
	var extra *Term
	for changed {
		changed = false
		for i, f := range fs {
			if f.Op != ORDiv || !nonZero(f.Args[1]) {
				continue
			}
			for j, g := range fs {
				if i != j && g == f.Args[1] {
					num := f.Args[0]
					var rest []*Term
					for k2, h := range fs {
						if k2 != i && k2 != j {
							rest = append(rest, h)
						}
					}
					fs = rest
					if !(num.Op == OConst && num.Rat.Cmp(rat1) == 0) {
						if extra == nil {
							extra = num
						} else {
							extra = Mul(extra, num)
						}
					}
					changed = true
					break
				}
			}
			if changed {
				break
			}
		}
	}
	var p *Term
	switch len(fs) {
	case 0:
		p = numC(s, rat1)
	case 1:
		p = fs[0]
	default:
		sort.Slice(fs, func(i, j int) bool { return fs[i].ID < fs[j].ID })
		t := &Term{Op: OMul, Sort: s, Args: fs}
		if s == Int {
			t.Lo, t.Hi = mulBounds(fs)
		}
		p = intern(t)
	}
	if extra != nil {
		return Mul(p, extra)
	}
	return p
}

func splitCoef(t *Term) (*big.Rat, *Term) {
	if t.Op == OSum && len(t.Args) == 1 && t.Rat.Sign() == 0 {
		return t.Coef[0], t.Args[0]
	}
	return rat1, t
}

func mulBounds(fs []*Term) (lo, hi *big.Int) {
	lo, hi = bi1, bi1
	for _, f := range fs {
		if f.Lo == nil || f.Hi == nil {
			// square of anything is >= 0
			if len(fs) == 2 && fs[0] == fs[1] {
				return bi0, nil
			}
			return nil, nil
		}
		c := []*big.Int{
			new(big.Int).Mul(lo, f.Lo), new(big.Int).Mul(lo, f.Hi),
			new(big.Int).Mul(hi, f.Lo), new(big.Int).Mul(hi, f.Hi)}
		lo, hi = c[0], c[0]
		for _, x := range c[1:] {
			if x.Cmp(lo) < 0 {
				lo = x
			}
			if x.Cmp(hi) > 0 {
				hi = x
			}
		}
	}
	if len(fs) == 2 && fs[0] == fs[1] && lo.Sign() < 0 {
		lo = bi0
	}
	return
}

func ToReal(a *Term) *Term {
	if a.Sort == Real {
		return a
	}
	if a.Op == OConst {
		return RealC(a.Rat)
	}
	if a.Op == OSum {
		l := newLin()
		l.c.Set(a.Rat)
		for i, x := range a.Args {
			l.add(ToReal(x), a.Coef[i])
		}
		return l.build(Real)
	}
	if a.Op == OMul {
		r := ToReal(a.Args[0])
		for _, x := range a.Args[1:] {
			r = Mul(r, ToReal(x))
		}
		return r
	}
	return intern(&Term{Op: OToReal, Sort: Real, Args: []*Term{a}})
}

// RDiv is real division a/b.
func RDiv(a, b *Term) *Term {
	a, b = coerce(a, Real), coerce(b, Real)
	if b.Op == OConst && b.Rat.Sign() != 0 {
		return Scale(a, new(big.Rat).Inv(b.Rat))
	}
	if a.Op == OConst && a.Rat.Sign() == 0 {
		return a
	}
	one := RealC(rat1)
	inv := intern(&Term{Op: ORDiv, Sort: Real, Args: []*Term{one, b}})
	if a == one {
		return inv
	}
	return Mul(a, inv)
}

func euclid(a, b *big.Int) (q, m *big.Int) {
	q, m = new(big.Int).DivMod(a, b, new(big.Int))
	return
}

// Div is SMT-LIB integer division (remainder always non-negative).
func Div(a, b *Term) *Term {
	if av, ok := a.ConstInt(); ok {
		if bv, ok := b.ConstInt(); ok && bv.Sign() != 0 {
			q, _ := euclid(av, bv)
			return IntC(q)
		}
	}
	if bv, ok := b.ConstInt(); ok && bv.Cmp(bi1) == 0 {
		return a
	}
	t := &Term{Op: ODiv, Sort: Int, Args: []*Term{a, b}}
	if bv, ok := b.ConstInt(); ok && bv.Sign() > 0 {
		if a.Lo != nil {
			t.Lo, _ = euclid(a.Lo, bv)
		}
		if a.Hi != nil {
			t.Hi, _ = euclid(a.Hi, bv)
		}
		if t.Lo != nil && t.Hi != nil && t.Lo.Cmp(t.Hi) == 0 {
			return IntC(t.Lo)
		}
	}
	return intern(t)
}

// IsMultipleOf reports whether a is syntactically k*b for an integer constant k.
func IsMultipleOf(a, b *Term) bool {
	if a == b {
		return true
	}
	if v, ok := a.ConstInt(); ok && v.Sign() == 0 {
		return true
	}
	return a.Op == OSum && len(a.Args) == 1 && a.Args[0] == b && a.Rat.Sign() == 0 && a.Coef[0].IsInt()
}

// Mod is SMT-LIB integer mod (result in [0,|b|)).
func Mod(a, b *Term) *Term {
	if av, ok := a.ConstInt(); ok {
		if bv, ok := b.ConstInt(); ok && bv.Sign() != 0 {
			_, m := euclid(av, bv)
			return IntC(m)
		}
	}
	if _, ok := b.ConstInt(); !ok && b.Lo != nil && b.Lo.Sign() > 0 && IsMultipleOf(a, b) {
		return I64(0)
	}
	if a.Op == OMod && len(a.Args) == 2 && a.Args[1] == b {
		return a // (x mod b) mod b
	}
	t := &Term{Op: OMod, Sort: Int, Args: []*Term{a, b}, Lo: bi0}
	if bv, ok := b.ConstInt(); ok && bv.Sign() > 0 {
		if a.Lo != nil && a.Hi != nil && a.Lo.Sign() >= 0 && a.Hi.Cmp(bv) < 0 {
			return a
		}
		// same quotient over the whole interval: a mod b = a - q*b
		if a.Lo != nil && a.Hi != nil {
			q1, _ := euclid(a.Lo, bv)
			q2, _ := euclid(a.Hi, bv)
			if q1.Cmp(q2) == 0 {
				return Sub(a, IntC(new(big.Int).Mul(q1, bv)))
			}
		}
		t.Hi = new(big.Int).Sub(bv, bi1)
	} else if b.Lo != nil && b.Lo.Sign() > 0 && b.Hi != nil {
		t.Hi = new(big.Int).Sub(b.Hi, bi1)
	}
	return intern(t)
}

func Ite(c, a, b *Term) *Term {
	if c == True {
		return a
	}
	if c == False {
		return b
	}
	if a == b {
		return a
	}
	if a.Sort == Bool {
		if a == True && b == False {
			return c
		}
		if a == False && b == True {
			return Not(c)
		}
		return Or(And(c, a), And(Not(c), b))
	}
	s := sortOf(a, b)
	a, b = coerce(a, s), coerce(b, s)
	t := &Term{Op: OIte, Sort: s, Args: []*Term{c, a, b}}
	if s == Int {
		if a.Lo != nil && b.Lo != nil {
			t.Lo = minB(a.Lo, b.Lo)
		}
		if a.Hi != nil && b.Hi != nil {
			t.Hi = maxB(a.Hi, b.Hi)
		}
	}
	return intern(t)
}

func minB(a, b *big.Int) *big.Int {
	if a.Cmp(b) < 0 {
		return a
	}
	return b
}
func maxB(a, b *big.Int) *big.Int {
	if a.Cmp(b) > 0 {
		return a
	}
	return b
}

// cmpZero builds a comparison "d op 0" where d = a-b.
func diff(a, b *Term) *Term { return Sub(a, b) }

func Eq(a, b *Term) *Term {
	if a == b {
		return True
	}
	if a.Sort == Bool {
		if a.IsConst() {
			if a.B {
				return b
			}
			return Not(b)
		}
		if b.IsConst() {
			if b.B {
				return a
			}
			return Not(a)
		}
		if a.ID > b.ID {
			a, b = b, a
		}
		return intern(&Term{Op: OEq, Sort: Bool, Args: []*Term{a, b}})
	}
	d := diff(a, b)
	if d.Op == OConst {
		return BoolC(d.Rat.Sign() == 0)
	}
	if d.Sort == Int {
		if d.Lo != nil && d.Lo.Sign() > 0 || d.Hi != nil && d.Hi.Sign() < 0 {
			return False
		}
		if r := bitLenCmp(d, OEq); r != nil {
			return r
		}
	}
	// a single monomial k*f1*...*fn is zero iff some factor is zero
	if _, m := splitCoef(d); (d.Op == OSum && len(d.Args) == 1 && d.Rat.Sign() == 0) || d.Op == OMul || d.Op == ORDiv || d.Op == OToReal {
		fs := []*Term{m}
		if m.Op == OMul {
			fs = m.Args
		}
		if len(fs) > 1 || m.Op == ORDiv || m.Op == OToReal {
			r := False
			for _, f := range fs {
				switch {
				case f.Op == ORDiv:
					// 1/x is never zero
				case nonZero(f):
				case f.Op == OToReal:
					r = Or(r, Eq(f.Args[0], I64(0)))
				default:
					r = Or(r, normCmp(OEq, f))
				}
			}
			return r
		}
	}
	return normCmp(OEq, d)
}

// constLeaves reports whether t is an ite tree whose leaves are all constants.
func constLeaves(t *Term, depth int) bool {
	if t.Op == OConst {
		return true
	}
	if t.Op == OIte && depth < 6 {
		return constLeaves(t.Args[1], depth+1) && constLeaves(t.Args[2], depth+1)
	}
	return false
}

// liftIte rewrites  (k0 + k1*ite(c, a, b)) op 0  with constant leaves into a
// boolean combination of the ite conditions (three-way Sign()/Cmp() encodings).
func liftIte(d *Term, op Op) *Term {
	var it *Term
	k0, k1 := rat0, rat1
	switch {
	case d.Op == OIte:
		it = d
	case d.Op == OSum && len(d.Args) == 1 && d.Args[0].Op == OIte:
		it, k0, k1 = d.Args[0], d.Rat, d.Coef[0]
	default:
		return nil
	}
	if !constLeaves(it, 0) {
		return nil
	}
	var rec func(t *Term) *Term
	rec = func(t *Term) *Term {
		if t.Op == OConst {
			v := new(big.Rat).Add(k0, new(big.Rat).Mul(k1, t.Rat))
			switch op {
			case OEq:
				return BoolC(v.Sign() == 0)
			case OLe:
				return BoolC(v.Sign() <= 0)
			default:
				return BoolC(v.Sign() < 0)
			}
		}
		return Ite(t.Args[0], rec(t.Args[1]), rec(t.Args[2]))
	}
	return rec(it)
}

// normCmp builds "d op 0" in a canonical shape "lhs op rhsConst".
func normCmp(op Op, d *Term) *Term {
	if r := liftIte(d, op); r != nil {
		return r
	}
	// move the constant to the right: sum' op -c
	var lhs, rhs *Term
	if d.Op == OSum {
		c := d.Rat
		l := newLin()
		for i, a := range d.Args {
			l.add(a, d.Coef[i])
		}
		lhs = l.build(d.Sort)
		rhs = numC(d.Sort, new(big.Rat).Neg(c))
		// normalise sign for equalities so that a==b and b==a coincide
		if op == OEq && lhs.Op == OSum && lhs.Coef[0].Sign() < 0 {
			lhs = Neg(lhs)
			rhs = numC(d.Sort, c)
		}
	} else {
		lhs, rhs = d, numC(d.Sort, rat0)
	}
	return intern(&Term{Op: op, Sort: Bool, Args: []*Term{lhs, rhs}})
}

func Le(a, b *Term) *Term {
	d := diff(a, b)
	if d.Op == OConst {
		return BoolC(d.Rat.Sign() <= 0)
	}
	if d.Sort == Int {
		if d.Hi != nil && d.Hi.Sign() <= 0 {
			return True
		}
		if d.Lo != nil && d.Lo.Sign() > 0 {
			return False
		}
		if r := bitLenCmp(d, OLe); r != nil {
			return r
		}
	}
	return normCmp(OLe, d)
}

func Lt(a, b *Term) *Term {
	if sortOf(a, b) == Int {
		return Le(Add(a, I64(1)), b)
	}
	d := diff(a, b)
	if d.Op == OConst {
		return BoolC(d.Rat.Sign() < 0)
	}
	return normCmp(OLt, d)
}
func Ge(a, b *Term) *Term { return Le(b, a) }
func Gt(a, b *Term) *Term { return Lt(b, a) }
func Ne(a, b *Term) *Term { return Not(Eq(a, b)) }

// bitLenCmp rewrites  BitLen(x) + c <= 0 / == 0  (coefficient +-1, integer c)
// into threshold comparisons on |x|.
func bitLenCmp(d *Term, op Op) *Term {
	var bl *Term
	var k, c *big.Rat
	switch {
	case d.Op == OBitLen:
		bl, k, c = d, rat1, rat0
	case d.Op == OSum && len(d.Args) == 1 && d.Args[0].Op == OBitLen:
		bl, k, c = d.Args[0], d.Coef[0], d.Rat
	default:
		return nil
	}
	if !c.IsInt() || !k.IsInt() || !k.Num().IsInt64() || !c.Num().IsInt64() {
		return nil
	}
	kk, cc := k.Num().Int64(), c.Num().Int64()
	if kk != 1 && kk != -1 {
		return nil
	}
	x := bl.Args[0]
	ge := func(n int64) *Term { // bitlen(x) >= n
		if n <= 0 {
			return True
		}
		if n > 1<<20 {
			return False
		}
		p := IntC(new(big.Int).Lsh(bi1, uint(n-1)))
		return Or(Ge(x, p), Le(x, Neg(p)))
	}
	switch op {
	case OLe:
		if kk == 1 { // bl <= -c  <=> !(bl >= -c+1)
			return Not(ge(-cc + 1))
		}
		// -bl + c <= 0 <=> bl >= c
		return ge(cc)
	case OEq:
		n := -cc * kk // bl == n  (k*bl + c = 0 => bl = -c/k)
		if n < 0 {
			return False
		}
		return And(ge(n), Not(ge(n+1)))
	}
	return nil
}

func Not(a *Term) *Term {
	switch a.Op {
	case OBool:
		return BoolC(!a.B)
	case ONot:
		return a.Args[0]
	}
	return intern(&Term{Op: ONot, Sort: Bool, Args: []*Term{a}})
}

func nary(op Op, unit, zero *Term, ts []*Term) *Term {
	seen := map[int]bool{}
	var out []*Term
	var walk func(t *Term) bool
	walk = func(t *Term) bool {
		if t == unit {
			return true
		}
		if t == zero {
			return false
		}
		if t.Op == op {
			for _, a := range t.Args {
				if !walk(a) {
					return false
				}
			}
			return true
		}
		if seen[t.ID] {
			return true
		}
		seen[t.ID] = true
		out = append(out, t)
		return true
	}
	for _, t := range ts {
		if t.Sort != Bool {
			panic("boolean connective on non-Bool")
		}
		if !walk(t) {
			return zero
		}
	}
	for _, t := range out {
		if t.Op == ONot && seen[t.Args[0].ID] {
			return zero
		}
	}
	if len(out) == 0 {
		return unit
	}
	if len(out) == 1 {
		return out[0]
	}
	sort.Slice(out, func(i, j int) bool { return out[i].ID < out[j].ID })
	return intern(&Term{Op: op, Sort: Bool, Args: out})
}

func And(ts ...*Term) *Term     { return nary(OAnd, True, False, ts) }
func Or(ts ...*Term) *Term      { return nary(OOr, False, True, ts) }
func Implies(a, b *Term) *Term  { return Or(Not(a), b) }
func Iff(a, b *Term) *Term      { return Eq(a, b) }
func Abs(a *Term) *Term         { return Ite(Ge(a, I64(0)), a, Neg(a)) }
func Pow2(n uint) *Term         { return IntC(new(big.Int).Lsh(bi1, n)) }
func Pow2Big(n uint) *big.Int   { return new(big.Int).Lsh(bi1, n) }
func InRange(t *Term, lo, hi *big.Int) *Term {
	return And(Ge(t, IntC(lo)), Le(t, IntC(hi)))
}

// App is an uninterpreted function application.
func App(name string, s Sort, lo, hi *big.Int, args ...*Term) *Term {
	return intern(&Term{Op: OApp, Sort: s, Name: name, Args: args, Lo: lo, Hi: hi})
}

// BitLen is the number of bits of |a|.
func BitLen(a *Term) *Term {
	if v, ok := a.ConstInt(); ok {
		return I64(int64(v.BitLen()))
	}
	// no integer in these programs has more than 2^24 bits
	t := &Term{Op: OBitLen, Sort: Int, Args: []*Term{a}, Lo: bi0, Hi: big.NewInt(1 << 24)}
	if a.Lo != nil && a.Hi != nil {
		m := maxB(new(big.Int).Abs(a.Lo), new(big.Int).Abs(a.Hi))
		t.Hi = big.NewInt(int64(m.BitLen()))
		if a.Lo.Sign() > 0 {
			t.Lo = big.NewInt(int64(a.Lo.BitLen()))
		}
		if t.Lo.Cmp(t.Hi) == 0 {
			return IntC(t.Lo)
		}
		// small ranges: explicit ladder
		if m.BitLen() <= 12 {
			abs := Abs(a)
			r := I64(int64(m.BitLen()))
			for n := m.BitLen() - 1; n >= 0; n-- {
				r = Ite(Lt(abs, Pow2(uint(n))), I64(int64(n)), r)
			}
			return r
		}
	}
	return intern(t)
}

// Wrap reduces an integer term into [lo, lo+2^bits) with two's-complement
// wrap-around semantics.
func Wrap(t *Term, signed bool, bits uint) *Term {
	var lo *big.Int
	mod := Pow2Big(bits)
	if signed {
		lo = new(big.Int).Neg(Pow2Big(bits - 1))
	} else {
		lo = bi0
	}
	hi := new(big.Int).Add(lo, mod)
	hi.Sub(hi, bi1)
	if t.Lo != nil && t.Hi != nil && t.Lo.Cmp(lo) >= 0 && t.Hi.Cmp(hi) <= 0 {
		return t
	}
	if lo.Sign() == 0 {
		return Mod(t, IntC(mod))
	}
	return Add(Mod(Sub(t, IntC(lo)), IntC(mod)), IntC(lo))
}
