package smt

import (
	"math/big"
	"testing"
	"time"
)

func TestBasic(t *testing.T) {
	x := Var("x", Int, big.NewInt(0), big.NewInt(255))
	y := Var("y", Int, nil, nil)
	r := Var("r", Real, nil, nil)
	as := []*Term{Eq(Add(x, y), I64(10)), Gt(y, I64(3)), Eq(Mul(r, RealC(big.NewRat(3, 1))), RealC(big.NewRat(1, 1))), Gt(BitLen(y), I64(2))}
	for _, k := range Kinds {
		res, m, note := Check(k.Name, as, true, 5*time.Second)
		t.Log(k.Name, res, m, note)
		if res != Sat {
			t.Fatal("expected sat")
		}
	}
	res, _, note, who := Portfolio([]*Term{Lt(x, I64(0))}, false, 5*time.Second, true)
	t.Log(res, note, who)
	res, _, note, who = Portfolio([]*Term{Lt(Mul(y,y), I64(0))}, false, 5*time.Second, true)
	t.Log(res, note, who)
	if res != Unsat { t.Fatal("expected unsat") }
	DefaultPool.Close()
}
