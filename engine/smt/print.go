package smt

import (
	"fmt"
	"math/big"
	"sort"
	"strings"
)

// Script renders a self-contained SMT-LIB2 query asserting all of asserts.
// It returns the script text and the list of variables (for get-value).
func Script(asserts []*Term, wantModel bool) (string, []*Term) {
	return script(asserts, wantModel, false)
}

// Relaxable reports whether all integer variables of the query may be
// relaxed to reals (no div/mod/bit-length/uninterpreted integer functions).
func Relaxable(asserts []*Term) bool {
	seen := map[int]bool{}
	ok := true
	var visit func(t *Term)
	visit = func(t *Term) {
		if !ok || seen[t.ID] {
			return
		}
		seen[t.ID] = true
		switch t.Op {
		case ODiv, OMod, OBitLen:
			ok = false
			return
		}
		for _, a := range t.Args {
			visit(a)
		}
	}
	for _, a := range asserts {
		visit(a)
	}
	return ok
}

// ScriptRelaxed renders the query with every numeric variable declared Real.
// The relaxed query is implied by the exact one, so "unsat" carries over.
func ScriptRelaxed(asserts []*Term) string {
	s, _ := script(asserts, false, true)
	return s
}

func script(asserts []*Term, wantModel bool, relax bool) (string, []*Term) {
	var sb strings.Builder
	refs := map[int]int{}
	var order []*Term
	seen := map[int]bool{}
	var visit func(t *Term)
	visit = func(t *Term) {
		refs[t.ID]++
		if seen[t.ID] {
			return
		}
		seen[t.ID] = true
		for _, a := range t.Args {
			visit(a)
		}
		order = append(order, t)
	}
	for _, a := range asserts {
		visit(a)
	}
	var vars []*Term
	ufs := map[string]*Term{}
	var bitlens []*Term
	thresholds := map[int64]bool{}
	for _, t := range order {
		switch t.Op {
		case OVar:
			vars = append(vars, t)
		case OApp:
			if _, ok := ufs[t.Name]; !ok {
				ufs[t.Name] = t
			}
		case OBitLen:
			bitlens = append(bitlens, t)
		case OConst:
			if v, ok := t.ConstInt64(); ok && v > 0 && v <= 8192 {
				thresholds[v] = true
			}
		case OSum:
			if t.Rat.IsInt() && t.Rat.Num().IsInt64() {
				v := t.Rat.Num().Int64()
				if v < 0 {
					v = -v
				}
				if v > 0 && v <= 8192 {
					thresholds[v] = true
				}
			}
		}
	}
	sort.Slice(vars, func(i, j int) bool { return vars[i].Name < vars[j].Name })
	for _, v := range vars {
		vs := v.Sort
		if relax && vs == Int {
			vs = Real
		}
		fmt.Fprintf(&sb, "(declare-fun %s () %s)\n", sym(v.Name), vs)
	}
	names := make([]string, 0, len(ufs))
	for n := range ufs {
		names = append(names, n)
	}
	sort.Strings(names)
	for _, n := range names {
		t := ufs[n]
		var as []string
		for _, a := range t.Args {
			if relax && a.Sort == Int {
				as = append(as, "Real")
			} else {
				as = append(as, a.Sort.String())
			}
		}
		rs := t.Sort
		if relax && rs == Int {
			rs = Real
		}
		fmt.Fprintf(&sb, "(declare-fun %s (%s) %s)\n", sym(n), strings.Join(as, " "), rs)
	}
	for _, b := range bitlens {
		fmt.Fprintf(&sb, "(declare-fun %s () Int)\n", blName(b))
	}
	// shared non-leaf nodes become define-funs in topological order
	named := map[int]string{}
	var expr func(t *Term) string
	expr = func(t *Term) string {
		if n, ok := named[t.ID]; ok {
			return n
		}
		return renderX(t, expr, relax)
	}
	for _, t := range order {
		if len(t.Args) > 0 && refs[t.ID] > 1 && t.Op != OBitLen {
			body := renderX(t, expr, relax)
			n := fmt.Sprintf("t!%d", t.ID)
			ts := t.Sort
			if relax && ts == Int {
				ts = Real
			}
			fmt.Fprintf(&sb, "(define-fun %s () %s %s)\n", n, ts, body)
			named[t.ID] = n
		}
	}
	for _, v := range vars {
		ns := Int
		if relax {
			ns = Real
		}
		if v.Lo != nil {
			fmt.Fprintf(&sb, "(assert (<= %s %s))\n", num(new(big.Rat).SetInt(v.Lo), ns), sym(v.Name))
		}
		if v.Hi != nil {
			fmt.Fprintf(&sb, "(assert (<= %s %s))\n", sym(v.Name), num(new(big.Rat).SetInt(v.Hi), ns))
		}
	}
	for _, t := range order {
		if t.Op == OApp && t.Sort == Int {
			ns := Int
			if relax {
				ns = Real
			}
			if t.Lo != nil {
				fmt.Fprintf(&sb, "(assert (<= %s %s))\n", num(new(big.Rat).SetInt(t.Lo), ns), expr(t))
			}
			if t.Hi != nil {
				fmt.Fprintf(&sb, "(assert (<= %s %s))\n", expr(t), num(new(big.Rat).SetInt(t.Hi), ns))
			}
		}
	}
	var ths []int64
	for k := range thresholds {
		ths = append(ths, k, k-1, k+1)
	}
	sort.Slice(ths, func(i, j int) bool { return ths[i] < ths[j] })
	for _, b := range bitlens {
		n := blName(b)
		x := expr(b.Args[0])
		fmt.Fprintf(&sb, "(assert (>= %s 0))\n(assert (= (= %s 0) (= %s 0)))\n", n, n, x)
		if b.Hi != nil {
			fmt.Fprintf(&sb, "(assert (<= %s %s))\n", n, b.Hi)
		}
		// a small bit length (at most 64) gets the complete ladder: arithmetic over it, as in
		// (BitLen+7)/8, is then decided exactly; wide ones only the thresholds the query mentions
		bths := ths
		if b.Hi != nil && b.Hi.IsInt64() && b.Hi.Int64() <= 64 {
			bths = nil
			for k := int64(1); k <= b.Hi.Int64(); k++ {
				bths = append(bths, k)
			}
		}
		last := int64(-1)
		for _, k := range bths {
			if k <= 0 || k == last {
				continue
			}
			last = k
			p := new(big.Int).Lsh(bi1, uint(k))
			fmt.Fprintf(&sb, "(assert (= (> %s %d) (or (>= %s %s) (<= %s (- %s)))))\n", n, k, x, p, x, p)
		}
	}
	for _, a := range asserts {
		fmt.Fprintf(&sb, "(assert %s)\n", expr(a))
	}
	sb.WriteString("(check-sat)\n")
	if !wantModel {
		vars = nil
	}
	return sb.String(), vars
}

func blName(t *Term) string { return fmt.Sprintf("bl!%d", t.ID) }

func sym(n string) string {
	for _, c := range n {
		if !(c >= 'a' && c <= 'z' || c >= 'A' && c <= 'Z' || c >= '0' && c <= '9' || strings.ContainsRune("_.!$", c)) {
			return "|" + n + "|"
		}
	}
	return n
}

func num(r *big.Rat, s Sort) string {
	neg := r.Sign() < 0
	a := new(big.Rat).Abs(r)
	var str string
	if s == Int {
		str = a.Num().String()
	} else if a.IsInt() {
		str = a.Num().String() + ".0"
	} else {
		str = fmt.Sprintf("(/ %s.0 %s.0)", a.Num(), a.Denom())
	}
	if neg {
		return "(- " + str + ")"
	}
	return str
}

func render(t *Term, e func(*Term) string) string { return renderX(t, e, false) }

func renderX(t *Term, e func(*Term) string, relax bool) string {
	if relax {
		switch t.Op {
		case OToReal:
			return e(t.Args[0])
		case OConst:
			return num(t.Rat, Real)
		case OSum:
			var parts []string
			if t.Rat.Sign() != 0 {
				parts = append(parts, num(t.Rat, Real))
			}
			for i, a := range t.Args {
				k := t.Coef[i]
				if k.Cmp(rat1) == 0 {
					parts = append(parts, e(a))
				} else {
					parts = append(parts, "(* "+num(k, Real)+" "+e(a)+")")
				}
			}
			if len(parts) == 1 {
				return parts[0]
			}
			return "(+ " + strings.Join(parts, " ") + ")"
		}
	}
	return renderPlain(t, e)
}

func renderPlain(t *Term, e func(*Term) string) string {
	bin := func(op string) string {
		var sb strings.Builder
		sb.WriteString("(" + op)
		for _, a := range t.Args {
			sb.WriteString(" " + e(a))
		}
		sb.WriteString(")")
		return sb.String()
	}
	switch t.Op {
	case OConst:
		return num(t.Rat, t.Sort)
	case OBool:
		if t.B {
			return "true"
		}
		return "false"
	case OVar:
		return sym(t.Name)
	case OSum:
		var parts []string
		if t.Rat.Sign() != 0 {
			parts = append(parts, num(t.Rat, t.Sort))
		}
		for i, a := range t.Args {
			k := t.Coef[i]
			if k.Cmp(rat1) == 0 {
				parts = append(parts, e(a))
			} else {
				parts = append(parts, "(* "+num(k, t.Sort)+" "+e(a)+")")
			}
		}
		if len(parts) == 1 {
			return parts[0]
		}
		return "(+ " + strings.Join(parts, " ") + ")"
	case OMul:
		return bin("*")
	case ODiv:
		return bin("div")
	case OMod:
		return bin("mod")
	case ORDiv:
		return bin("/")
	case OToReal:
		return bin("to_real")
	case OIte:
		return bin("ite")
	case OEq:
		return bin("=")
	case OLe:
		return bin("<=")
	case OLt:
		return bin("<")
	case OAnd:
		return bin("and")
	case OOr:
		return bin("or")
	case ONot:
		return bin("not")
	case OApp:
		if len(t.Args) == 0 {
			return sym(t.Name)
		}
		return bin(sym(t.Name))
	case OBitLen:
		return blName(t)
	}
	panic("render: unknown op")
}

// String renders a term for diagnostics (no sharing).
func (t *Term) String() string {
	var e func(*Term) string
	e = func(x *Term) string { return render(x, e) }
	s := e(t)
	if len(s) > 400 {
		s = s[:400] + "..."
	}
	return s
}
