package smt

import (
	"bufio"
	"fmt"
	"io"
	"math/big"
	"os/exec"
	"strings"
	"sync"
	"sync/atomic"
	"time"
)

type Result int

const (
	Unknown Result = iota
	Sat
	Unsat
)

func (r Result) String() string { return [...]string{"unknown", "sat", "unsat"}[r] }

type Model map[string]*big.Rat

type SolverKind struct {
	Name    string
	Argv    []string
	Pre     string // sent after every (reset)
	OneShot bool   // spawn a fresh process per query (cvc5 is much stronger without --incremental)
}

var Kinds = []SolverKind{
	{"z3", []string{"z3", "-in"}, "", false},
	{"z3-new", []string{"z3-new", "-in"}, "", false},
	{"cvc5", []string{"cvc5", "--produce-models", "--nl-ext-tplanes", "--lang=smt2"}, "(set-logic ALL)\n", true},
}

type proc struct {
	kind SolverKind
	cmd  *exec.Cmd
	in   io.WriteCloser
	out  *bufio.Reader
}

func start(k SolverKind) (*proc, error) {
	cmd := exec.Command(k.Argv[0], k.Argv[1:]...)
	in, err := cmd.StdinPipe()
	if err != nil {
		return nil, err
	}
	out, err := cmd.StdoutPipe()
	if err != nil {
		return nil, err
	}
	cmd.Stderr = cmd.Stdout
	if err := cmd.Start(); err != nil {
		return nil, err
	}
	return &proc{kind: k, cmd: cmd, in: in, out: bufio.NewReaderSize(out, 1<<20)}, nil
}

func (p *proc) kill() {
	if p.cmd.Process != nil {
		p.cmd.Process.Kill()
	}
	p.in.Close()
	p.cmd.Wait()
}

// Stats is shared accounting over all solver calls.
type Stats struct {
	mu      sync.Mutex
	Queries map[string]int
	TimeS   map[string]float64
	Errors  int64
}

var Global = &Stats{Queries: map[string]int{}, TimeS: map[string]float64{}}

func (s *Stats) add(name string, d time.Duration) {
	s.mu.Lock()
	s.Queries[name]++
	s.TimeS[name] += d.Seconds()
	s.mu.Unlock()
}

// Pool keeps idle solver processes per kind.
type Pool struct {
	mu   sync.Mutex
	idle map[string][]*proc
}

var DefaultPool = &Pool{idle: map[string][]*proc{}}

func (pl *Pool) get(k SolverKind) (*proc, error) {
	pl.mu.Lock()
	l := pl.idle[k.Name]
	if n := len(l); n > 0 {
		p := l[n-1]
		pl.idle[k.Name] = l[:n-1]
		pl.mu.Unlock()
		return p, nil
	}
	pl.mu.Unlock()
	return start(k)
}

func (pl *Pool) put(p *proc) {
	pl.mu.Lock()
	pl.idle[p.kind.Name] = append(pl.idle[p.kind.Name], p)
	pl.mu.Unlock()
}

func (pl *Pool) Close() {
	pl.mu.Lock()
	defer pl.mu.Unlock()
	for _, l := range pl.idle {
		for _, p := range l {
			p.kill()
		}
	}
	pl.idle = map[string][]*proc{}
}

var marker = "__vp_done__"

// run sends one self-contained script to one solver with a wall-clock limit.
// runOneShot starts a fresh solver process for the query.
func (pl *Pool) runOneShot(k SolverKind, script string, vars []*Term, limit time.Duration, cancel <-chan struct{}) (Result, Model, string) {
	t0 := time.Now()
	once := func(text string) ([]string, string) {
		cmd := exec.Command(k.Argv[0], k.Argv[1:]...)
		cmd.Stdin = strings.NewReader(text)
		var out strings.Builder
		cmd.Stdout = &out
		cmd.Stderr = &out
		if err := cmd.Start(); err != nil {
			return nil, "start: " + err.Error()
		}
		done := make(chan error, 1)
		go func() { done <- cmd.Wait() }()
		select {
		case <-done:
		case <-time.After(limit + 500*time.Millisecond):
			cmd.Process.Kill()
			<-done
			return nil, "timeout"
		case <-cancel:
			cmd.Process.Kill()
			<-done
			return nil, "cancelled"
		}
		var lines []string
		for _, l := range strings.Split(out.String(), "\n") {
			if l = strings.TrimSpace(l); l != "" {
				lines = append(lines, l)
			}
		}
		return lines, ""
	}
	lines, note := once(k.Pre + script)
	Global.add(k.Name, time.Since(t0))
	if note != "" {
		return Unknown, nil, note
	}
	res := Unknown
	for _, l := range lines {
		if strings.Contains(l, "(error") {
			atomic.AddInt64(&Global.Errors, 1)
			return Unknown, nil, "solver error: " + l
		}
		switch l {
		case "sat":
			res = Sat
		case "unsat":
			res = Unsat
		}
	}
	if res == Sat && len(vars) > 0 {
		var gv strings.Builder
		gv.WriteString("(get-value (")
		for _, v := range vars {
			gv.WriteString(sym(v.Name) + " ")
		}
		gv.WriteString("))\n")
		l2, note2 := once(k.Pre + script + gv.String())
		if note2 != "" {
			return Unknown, nil, note2
		}
		var rest []string
		seen := false
		for _, l := range l2 {
			if seen {
				rest = append(rest, l)
			}
			if l == "sat" {
				seen = true
			}
		}
		return Sat, parseModel(strings.Join(rest, " ")), ""
	}
	return res, nil, ""
}

func (pl *Pool) run(k SolverKind, script string, vars []*Term, limit time.Duration, cancel <-chan struct{}) (Result, Model, string) {
	if k.OneShot {
		return pl.runOneShot(k, script, vars, limit, cancel)
	}
	p, err := pl.get(k)
	if err != nil {
		return Unknown, nil, "start: " + err.Error()
	}
	t0 := time.Now()
	var sb strings.Builder
	sb.WriteString("(reset)\n")
	sb.WriteString(k.Pre)
	if strings.HasPrefix(k.Name, "z3") {
		fmt.Fprintf(&sb, "(set-option :timeout %d)\n", limit.Milliseconds())
	}
	sb.WriteString(script)
	fmt.Fprintf(&sb, "(echo \"%s\")\n", marker)
	type reply struct {
		lines []string
		err   error
	}
	readUntil := func() ([]string, error) {
		var lines []string
		for {
			line, err := p.out.ReadString('\n')
			if err != nil {
				return lines, err
			}
			line = strings.TrimSpace(line)
			if strings.Trim(line, "\"") == marker {
				return lines, nil
			}
			if line != "" {
				lines = append(lines, line)
			}
		}
	}
	ch := make(chan reply, 1)
	go func() {
		if _, err := io.WriteString(p.in, sb.String()); err != nil {
			ch <- reply{nil, err}
			return
		}
		lines, err := readUntil()
		if err == nil && len(vars) > 0 {
			isSat := false
			for _, l := range lines {
				if l == "sat" {
					isSat = true
				}
			}
			if isSat {
				var gv strings.Builder
				gv.WriteString("(get-value (")
				for _, v := range vars {
					gv.WriteString(sym(v.Name) + " ")
				}
				fmt.Fprintf(&gv, "))\n(echo \"%s\")\n", marker)
				if _, err = io.WriteString(p.in, gv.String()); err == nil {
					var more []string
					more, err = readUntil()
					lines = append(lines, more...)
				}
			}
		}
		ch <- reply{lines, err}
	}()
	var r reply
	select {
	case r = <-ch:
	case <-time.After(limit + 500*time.Millisecond):
		p.kill()
		Global.add(k.Name, time.Since(t0))
		return Unknown, nil, "timeout"
	case <-cancel:
		p.kill()
		Global.add(k.Name, time.Since(t0))
		return Unknown, nil, "cancelled"
	}
	Global.add(k.Name, time.Since(t0))
	if r.err != nil {
		p.kill()
		return Unknown, nil, "io: " + r.err.Error()
	}
	pl.put(p)
	res := Unknown
	var rest []string
	for _, l := range r.lines {
		if strings.Contains(l, "(error") {
			atomic.AddInt64(&Global.Errors, 1)
			return Unknown, nil, "solver error: " + l
		}
	}
	for i, l := range r.lines {
		switch l {
		case "sat":
			res = Sat
			rest = r.lines[i+1:]
		case "unsat":
			res = Unsat
		case "unknown":
			res = Unknown
		default:
			continue
		}
		break
	}
	var m Model
	if res == Sat && len(vars) > 0 {
		m = parseModel(strings.Join(rest, " "))
	}
	return res, m, ""
}

// Check runs the script on one named solver.
func Check(solver string, asserts []*Term, wantModel bool, limit time.Duration) (Result, Model, string) {
	script, vars := Script(asserts, wantModel)
	for _, k := range Kinds {
		if k.Name == solver {
			return DefaultPool.run(k, script, vars, limit, nil)
		}
	}
	return Unknown, nil, "no such solver"
}

// Portfolio runs all solvers concurrently; the first definite answer wins.
// A sat/unsat disagreement is reported in the note.
func Portfolio(asserts []*Term, wantModel bool, limit time.Duration, wait bool) (Result, Model, string, string) {
	script, vars := Script(asserts, wantModel)
	type ans struct {
		r    Result
		m    Model
		note string
		who  string
	}
	ch := make(chan ans, len(Kinds))
	cancel := make(chan struct{})
	defer close(cancel)
	for _, k := range Kinds {
		go func(k SolverKind) {
			r, m, note := DefaultPool.run(k, script, vars, limit, cancel)
			ch <- ans{r, m, note, k.Name}
		}(k)
	}
	var best ans
	var notes []string
	for range Kinds {
		a := <-ch
		if a.note != "" {
			notes = append(notes, a.who+":"+a.note)
		}
		if a.r != Unknown {
			if best.r != Unknown && best.r != a.r {
				return Unknown, nil, "DISAGREE " + best.who + "=" + best.r.String() + " " + a.who + "=" + a.r.String(), ""
			}
			if best.r == Unknown {
				best = a
			}
			if !wait {
				return best.r, best.m, "", best.who
			}
		}
	}
	if best.r == Unknown {
		return Unknown, nil, strings.Join(notes, "; "), ""
	}
	return best.r, best.m, "", best.who
}

// parseModel parses the reply of get-value: ((x 1) (y (- 2)) (z (/ 1.0 3.0)))
func parseModel(s string) Model {
	m := Model{}
	toks := tokenize(s)
	pos := 0
	var parseVal func() *big.Rat
	parseVal = func() *big.Rat {
		if pos >= len(toks) {
			return nil
		}
		t := toks[pos]
		pos++
		if t != "(" {
			r, ok := new(big.Rat).SetString(t)
			if !ok {
				return nil
			}
			return r
		}
		op := toks[pos]
		pos++
		var args []*big.Rat
		for pos < len(toks) && toks[pos] != ")" {
			args = append(args, parseVal())
		}
		pos++
		for _, a := range args {
			if a == nil {
				return nil
			}
		}
		switch {
		case op == "-" && len(args) == 1:
			return new(big.Rat).Neg(args[0])
		case op == "-" && len(args) == 2:
			return new(big.Rat).Sub(args[0], args[1])
		case op == "/" && len(args) == 2 && args[1].Sign() != 0:
			return new(big.Rat).Quo(args[0], args[1])
		case op == "+" && len(args) == 2:
			return new(big.Rat).Add(args[0], args[1])
		case op == "*" && len(args) == 2:
			return new(big.Rat).Mul(args[0], args[1])
		}
		return nil
	}
	if pos < len(toks) && toks[pos] == "(" {
		pos++
	}
	for pos < len(toks) && toks[pos] == "(" {
		pos++
		name := strings.Trim(toks[pos], "|")
		pos++
		if pos < len(toks) && (toks[pos] == "true" || toks[pos] == "false") {
			if toks[pos] == "true" {
				m[name] = big.NewRat(1, 1)
			} else {
				m[name] = new(big.Rat)
			}
			pos++
		} else if v := parseVal(); v != nil {
			m[name] = v
		} else {
			// skip malformed/irrational entry
			depth := 0
			for pos < len(toks) {
				if toks[pos] == "(" {
					depth++
				} else if toks[pos] == ")" {
					if depth == 0 {
						break
					}
					depth--
				}
				pos++
			}
		}
		if pos < len(toks) && toks[pos] == ")" {
			pos++
		}
	}
	return m
}

func tokenize(s string) []string {
	var toks []string
	i := 0
	for i < len(s) {
		c := s[i]
		switch {
		case c == ' ' || c == '\t' || c == '\n' || c == '\r':
			i++
		case c == '(' || c == ')':
			toks = append(toks, string(c))
			i++
		case c == '|':
			j := strings.IndexByte(s[i+1:], '|')
			if j < 0 {
				return toks
			}
			toks = append(toks, s[i:i+j+2])
			i += j + 2
		default:
			j := i
			for j < len(s) && !strings.ContainsRune(" \t\n\r()", rune(s[j])) {
				j++
			}
			toks = append(toks, s[i:j])
			i = j
		}
	}
	return toks
}

// CheckRelaxed runs the real-relaxation of the query on one solver. Only
// Unsat answers are meaningful for the exact query; Sat means "possibly sat".
func CheckRelaxed(solver string, asserts []*Term, limit time.Duration) (Result, string) {
	script := ScriptRelaxed(asserts)
	for _, k := range Kinds {
		if k.Name == solver {
			r, _, note := DefaultPool.run(k, script, nil, limit, nil)
			return r, note
		}
	}
	return Unknown, "no such solver"
}

// PortfolioRelaxed runs the real-relaxation on all solvers.
func PortfolioRelaxed(asserts []*Term, limit time.Duration) (Result, string) {
	script := ScriptRelaxed(asserts)
	type ans struct {
		r    Result
		note string
	}
	ch := make(chan ans, len(Kinds))
	cancel := make(chan struct{})
	defer close(cancel)
	for _, k := range Kinds {
		go func(k SolverKind) {
			r, _, note := DefaultPool.run(k, script, nil, limit, cancel)
			ch <- ans{r, note}
		}(k)
	}
	for range Kinds {
		a := <-ch
		if a.r != Unknown {
			return a.r, ""
		}
	}
	return Unknown, "relaxed: all unknown"
}
