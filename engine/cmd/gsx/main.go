// gsx: symbolic execution of gabi harnesses from go/ssa into SMT-LIB2.
package main

import (
	"encoding/json"
	"flag"
	"fmt"
	"math/big"
	"os"
	"os/exec"
	"path/filepath"
	"regexp"
	"runtime/pprof"
	"sort"
	"strconv"
	"strings"
	"time"

	"gabiverif/smt"
	"gabiverif/sx"
)

var (
	verifDir = "/verif"
	repoDir  = "/repo"
)

func goEnv() []string {
	env := os.Environ()
	env = append(env, "PATH=/opt/veriftools/go1.26.8/bin:"+os.Getenv("PATH"),
		"GOTOOLCHAIN=local", "GOFLAGS=-mod=mod", "GOPROXY=off", "GOSUMDB=off")
	return env
}

func main() {
	if len(os.Args) < 2 {
		fmt.Fprintln(os.Stderr, "usage: gsx check|replay ...")
		os.Exit(2)
	}
	// the loader shells out to `go list`
	os.Setenv("PATH", "/opt/veriftools/go1.26.8/bin:"+os.Getenv("PATH"))
	os.Setenv("GOTOOLCHAIN", "local")
	os.Setenv("GOFLAGS", "-mod=mod")
	os.Setenv("GOPROXY", "off")
	os.Setenv("GOSUMDB", "off")
	if v := os.Getenv("VERIF_DIR"); v != "" {
		verifDir = v
	}
	if v := os.Getenv("VERIF_REPO"); v != "" {
		repoDir = v
	}
	if pf := os.Getenv("GSX_PROF"); pf != "" {
		f, _ := os.Create(pf)
		pprof.StartCPUProfile(f)
		defer pprof.StopCPUProfile()
	}
	switch os.Args[1] {
	case "check":
		rc := cmdCheck(os.Args[2:])
		pprof.StopCPUProfile()
		os.Exit(rc)
	case "replay":
		os.Exit(cmdReplay(os.Args[2:]))
	default:
		fmt.Fprintln(os.Stderr, "unknown command", os.Args[1])
		os.Exit(2)
	}
}

type knownFinding struct {
	Status     string `json:"status"` // "known" | "fixed"
	Property   string `json:"property"`
	Obligation string `json:"obligation"`
	Label      string `json:"label"`
	Where      []struct {
		Var   string `json:"var"`
		Op    string `json:"op"`
		Value string `json:"value"`
	} `json:"where"`
	PosContains string `json:"pos_contains"`
	What        string `json:"what"`
	Commit      string `json:"commit"`
}

func loadKnown() []knownFinding {
	var k []knownFinding
	b, err := os.ReadFile(filepath.Join(verifDir, "known_findings.json"))
	if err != nil {
		return nil
	}
	if err := json.Unmarshal(b, &k); err != nil {
		fmt.Fprintln(os.Stderr, "known_findings.json:", err)
		os.Exit(2)
	}
	return k
}

func (k *knownFinding) matches(prop, ob string, f *sx.Finding) bool {
	if k.Status != "known" || k.Property != prop || k.Obligation != ob || k.Label != f.Label {
		return false
	}
	if k.PosContains != "" && !strings.Contains(f.Pos, k.PosContains) {
		return false
	}
	for _, w := range k.Where {
		v, ok := f.Model[w.Var]
		if !ok {
			v = new(big.Rat)
		}
		c, ok := new(big.Rat).SetString(w.Value)
		if !ok {
			return false
		}
		cmp := v.Cmp(c)
		switch w.Op {
		case "==":
			if cmp != 0 {
				return false
			}
		case "!=":
			if cmp == 0 {
				return false
			}
		case ">=":
			if cmp < 0 {
				return false
			}
		case "<=":
			if cmp > 0 {
				return false
			}
		case ">":
			if cmp <= 0 {
				return false
			}
		case "<":
			if cmp >= 0 {
				return false
			}
		default:
			return false
		}
	}
	return true
}

type buildInfo struct {
	overlayLoad map[string][]byte // for packages.Load
	overlayJSON string            // for go test -overlay
	pkgDirs     map[string]string // rel dir -> package name
}

var pkgClause = regexp.MustCompile(`(?m)^package\s+(\w+)`)

// prepareOverlay collects harness files and generates the prims per package.
func overridesOf(obs []*sx.Obligation) []sx.SourceOverride {
	var out []sx.SourceOverride
	seen := map[sx.SourceOverride]bool{}
	for _, o := range obs {
		for _, so := range o.SourceOverrides {
			if !seen[so] {
				seen[so] = true
				out = append(out, so)
			}
		}
	}
	return out
}

func prepareOverlay(overrides []sx.SourceOverride) (*buildInfo, error) {
	hdir := filepath.Join(verifDir, "harness", "pkgs")
	ov, files, err := sx.ReadOverlay(hdir, repoDir)
	if err != nil {
		return nil, err
	}
	bi := &buildInfo{overlayLoad: ov, pkgDirs: map[string]string{}}
	replace := map[string]string{}
	// source overrides: the current /repo file with single literal replacements
	byFile := map[string][]byte{}
	for _, so := range overrides {
		path := filepath.Join(repoDir, so.File)
		b, ok := byFile[path]
		if !ok {
			if b, err = os.ReadFile(path); err != nil {
				return nil, fmt.Errorf("source override: %v", err)
			}
		}
		if strings.Count(string(b), so.Old) != 1 {
			return nil, fmt.Errorf("source override: %q does not occur exactly once in %s", so.Old, so.File)
		}
		byFile[path] = []byte(strings.Replace(string(b), so.Old, so.New, 1))
	}
	for path, b := range byFile {
		rel, _ := filepath.Rel(repoDir, path)
		dst := filepath.Join(verifDir, "build", "gen", "override", rel)
		if err := os.MkdirAll(filepath.Dir(dst), 0o755); err != nil {
			return nil, err
		}
		if err := os.WriteFile(dst, b, 0o644); err != nil {
			return nil, err
		}
		bi.overlayLoad[path] = b
		replace[path] = dst
	}
	for dst, src := range files {
		replace[dst] = src
		rel, _ := filepath.Rel(repoDir, filepath.Dir(dst))
		b, _ := os.ReadFile(src)
		if m := pkgClause.FindSubmatch(b); m != nil {
			bi.pkgDirs[rel] = string(m[1])
		}
	}
	gen := filepath.Join(verifDir, "build", "gen")
	for rel, name := range bi.pkgDirs {
		imp := `"github.com/privacybydesign/gabi/big"`
		src := strings.ReplaceAll(primsTemplate, "PKGNAME", name)
		src = strings.ReplaceAll(src, "BIGIMPORT", imp)
		tst := strings.ReplaceAll(replayTestTemplate, "PKGNAME", name)
		d := filepath.Join(gen, rel)
		if err := os.MkdirAll(d, 0o755); err != nil {
			return nil, err
		}
		pf := filepath.Join(d, "zz_vp_prims.go")
		tf := filepath.Join(d, "zz_vp_replay_test.go")
		if err := os.WriteFile(pf, []byte(src), 0o644); err != nil {
			return nil, err
		}
		if err := os.WriteFile(tf, []byte(tst), 0o644); err != nil {
			return nil, err
		}
		if rel == "." || rel == "rangeproof" || rel == "revocation" {
			ks := strings.ReplaceAll(keysTemplate, "PKGNAME", name)
			kf := filepath.Join(d, "zz_vp_keys.go")
			if err := os.WriteFile(kf, []byte(ks), 0o644); err != nil {
				return nil, err
			}
			bi.overlayLoad[filepath.Join(repoDir, rel, "zz_vp_keys.go")] = []byte(ks)
			replace[filepath.Join(repoDir, rel, "zz_vp_keys.go")] = kf
		}
		bi.overlayLoad[filepath.Join(repoDir, rel, "zz_vp_prims.go")] = []byte(src)
		replace[filepath.Join(repoDir, rel, "zz_vp_prims.go")] = pf
		replace[filepath.Join(repoDir, rel, "zz_vp_replay_test.go")] = tf
	}
	oj, _ := json.MarshalIndent(map[string]interface{}{"Replace": replace}, "", " ")
	bi.overlayJSON = filepath.Join(verifDir, "build", "overlay.json")
	if err := os.WriteFile(bi.overlayJSON, oj, 0o644); err != nil {
		return nil, err
	}
	return bi, nil
}

func loadObligations() ([]*sx.Obligation, error) {
	b, err := os.ReadFile(filepath.Join(verifDir, "harness", "obligations.json"))
	if err != nil {
		return nil, err
	}
	var obs []*sx.Obligation
	if err := json.Unmarshal(b, &obs); err != nil {
		return nil, fmt.Errorf("obligations.json: %v", err)
	}
	return obs, nil
}

type replayDoc struct {
	Property   string            `json:"property"`
	Obligation string            `json:"obligation"`
	Harness    string            `json:"harness"`
	Pkg        string            `json:"pkg"`
	Label      string            `json:"label"`
	Kind       string            `json:"kind"`
	Msg        string            `json:"msg"`
	Pos        string            `json:"pos"`
	Solver     string            `json:"solver"`
	Values     map[string]string `json:"values"`
	Command    string            `json:"command"`
	Outcome    string            `json:"native_outcome,omitempty"`
	Trace      []string          `json:"symbolic_branch_trace,omitempty"`
	Internal   map[string]string `json:"internal_values,omitempty"`
}

func writeReplay(prop string, ob *sx.Obligation, f *sx.Finding, n int, bi *buildInfo) (string, *replayDoc) {
	dir := filepath.Join(verifDir, "evidence", "replay")
	os.MkdirAll(dir, 0o755)
	path := filepath.Join(dir, fmt.Sprintf("%s-%s-%d.json", prop, ob.Name, n))
	vals := map[string]string{}
	internal := map[string]string{}
	for k, v := range f.Model {
		if strings.Contains(k, "!") {
			internal[k] = v.RatString() // internal fresh variables have no native counterpart
			continue
		}
		vals[k] = v.RatString()
	}
	for k, v := range ob.Params {
		vals["param:"+k] = strconv.Itoa(v)
	}
	pkg := "."
	if ob.Pkg != "" {
		pkg = "./" + ob.Pkg
	}
	doc := &replayDoc{Property: prop, Obligation: ob.Name, Harness: ob.Func, Pkg: pkg, Label: f.Label, Kind: f.Kind,
		Msg: f.Msg, Pos: f.Pos, Solver: f.Solver, Values: vals, Internal: internal, Trace: f.Trace,
		Command: fmt.Sprintf("cd %s && VP_REPLAY=%s go test -v -vet=off -count=1 -run '^TestVPReplay$' -overlay %s %s   (add -race for DATA RACE findings)", repoDir, path, bi.overlayJSON, pkg)}
	b, _ := json.MarshalIndent(doc, "", " ")
	os.WriteFile(path, b, 0o644)
	return path, doc
}

var outcomeRe = regexp.MustCompile(`VP-OUTCOME: (.*)`)
var crashRe = regexp.MustCompile(`(?m)^panic: (.*)\n(?:.*\n)*?goroutine \d+ \[`)

func nativeReplay(path string, doc *replayDoc, bi *buildInfo) string {
	out := nativeReplayRounds(path, doc, bi, 1)
	if strings.HasPrefix(out, "VP-PASS") || strings.HasPrefix(out, "VP-ASSUME") {
		// the library's own random draws are not injectable: a counterexample may need several native runs
		if again := nativeReplayRounds(path, doc, bi, 60); !strings.HasPrefix(again, "VP-PASS") && !strings.HasPrefix(again, "VP-ASSUME") {
			return again + " (within 60 native runs or 45 s of them; depends on the library's random draws)"
		}
	}
	return out
}

func nativeReplayRounds(path string, doc *replayDoc, bi *buildInfo, rounds int) string {
	args := []string{"test", "-v", "-vet=off", "-count=1", "-run", "^TestVPReplay$", "-overlay", bi.overlayJSON, "-timeout", "300s"}
	race := strings.HasPrefix(doc.Msg, "DATA RACE")
	if race {
		// data races are confirmed by the Go race detector on the real build
		args = append(args, "-race", "-count=3")
	}
	cmd := exec.Command("go", append(args, doc.Pkg)...)
	cmd.Dir = repoDir
	cmd.Env = append(goEnv(), "VP_REPLAY="+path, fmt.Sprintf("VP_ROUNDS=%d", rounds))
	if rounds > 1 {
		cmd.Env = append(cmd.Env, "VP_SECONDS=45") // cheap harnesses get many more runs (collisions of small random ranges)
	}
	out, err := cmd.CombinedOutput()
	if race && (strings.Contains(string(out), "WARNING: DATA RACE") || strings.Contains(string(out), "race detected during execution")) {
		return "VP-RACE-DETECTED by go test -race"
	}
	if m := outcomeRe.FindSubmatch(out); m != nil {
		return strings.TrimSpace(string(m[1]))
	}
	s := string(out)
	if m := crashRe.FindStringSubmatch(s); m != nil {
		// a panic in a goroutine other than the harness's takes the test process down
		return "VP-PANIC (process crashed) " + strings.TrimSpace(m[1])
	}
	if len(s) > 600 {
		s = s[len(s)-600:]
	}
	return fmt.Sprintf("VP-ERROR no outcome (err=%v): %s", err, s)
}

func reproduced(f *sx.Finding, outcome string) bool {
	switch f.Kind {
	case "panic":
		if strings.HasPrefix(f.Msg, "DATA RACE") {
			return strings.HasPrefix(outcome, "VP-RACE-DETECTED")
		}
		return strings.HasPrefix(outcome, "VP-PANIC")
	default:
		return strings.HasPrefix(outcome, "VP-ASSERT-FAIL") && strings.Contains(outcome, strconv.Quote(f.Label)) ||
			strings.HasPrefix(outcome, "VP-PANIC")
	}
}

func cmdReplay(args []string) int {
	if len(args) < 1 {
		fmt.Fprintln(os.Stderr, "usage: gsx replay <file>")
		return 2
	}
	b, err := os.ReadFile(args[0])
	if err != nil {
		fmt.Fprintln(os.Stderr, err)
		return 2
	}
	var doc replayDoc
	if err := json.Unmarshal(b, &doc); err != nil {
		fmt.Fprintln(os.Stderr, err)
		return 2
	}
	var same []*sx.Obligation
	if all, err := loadObligations(); err == nil {
		for _, o := range all {
			if o.Prop == doc.Property {
				same = append(same, o)
			}
		}
	}
	bi, err := prepareOverlay(overridesOf(same))
	if err != nil {
		fmt.Fprintln(os.Stderr, err)
		return 2
	}
	out := nativeReplay(args[0], &doc, bi)
	fmt.Println("native outcome:", out)
	if strings.HasPrefix(out, "VP-PASS") || strings.HasPrefix(out, "VP-ASSUME") {
		return 0
	}
	return 1
}

type obEvidence struct {
	Name         string              `json:"name"`
	Harness      string              `json:"harness"`
	Paths        int                 `json:"paths"`
	Ends         map[string]int      `json:"path_ends"`
	EndSamples   map[string][]string `json:"path_end_samples,omitempty"`
	Asserts      map[string]int      `json:"assert_hits"`
	Reached      []string            `json:"labels_reached_sat"`
	FinalQueries int                 `json:"final_queries"`
	Inconclusive []string            `json:"inconclusive,omitempty"`
	Findings     []string            `json:"findings,omitempty"`
	WallS        float64             `json:"wall_s"`
	Unwind       int                 `json:"unwind_bound"`
	Params       map[string]int      `json:"params,omitempty"`
	Note         string              `json:"note,omitempty"`
}

func cmdCheck(args []string) int {
	fs := flag.NewFlagSet("check", flag.ExitOnError)
	prop := fs.String("prop", "", "property id")
	tier := fs.String("tier", "quick", "quick|thorough")
	only := fs.String("only", "", "run only this obligation")
	verbose := fs.Bool("v", false, "verbose")
	noReplay := fs.Bool("noreplay", false, "skip native replay")
	workers := fs.Int("workers", 16, "parallel paths")
	fs.Parse(args)
	t0 := time.Now()
	seed := 0
	if s := os.Getenv("VERIF_SEED"); s != "" {
		seed, _ = strconv.Atoi(s)
	}
	obs, err := loadObligations()
	if err != nil {
		fmt.Fprintln(os.Stderr, err)
		return 2
	}
	var sel []*sx.Obligation
	for _, o := range obs {
		if o.Prop != *prop {
			continue
		}
		if *only != "" && o.Name != *only {
			continue
		}
		if o.Tier == "thorough" && *tier != "thorough" {
			continue
		}
		sel = append(sel, o)
	}
	if len(sel) == 0 {
		fmt.Fprintln(os.Stderr, "no obligations for", *prop)
		return 2
	}
	if seed != 0 {
		// the seed only permutes obligation order
		sort.SliceStable(sel, func(i, j int) bool { return (i*7919+seed)%len(sel) < (j*7919+seed)%len(sel) })
	}
	bi, err := prepareOverlay(overridesOf(sel))
	if err != nil {
		fmt.Fprintln(os.Stderr, "MACHINERY-FAILURE: overlay:", err)
		return 2
	}
	tl := time.Now()
	P, err := sx.Load(repoDir, bi.overlayLoad)
	if err != nil {
		fmt.Fprintln(os.Stderr, "MACHINERY-FAILURE: cannot load /repo with harness overlay:\n", err)
		return 2
	}
	P.Workers = *workers
	if *tier == "thorough" {
		P.FinalLimit = 300 * time.Second
	}
	loadS := time.Since(tl).Seconds()
	known := loadKnown()
	defer smt.DefaultPool.Close()
	if old, _ := filepath.Glob(filepath.Join(verifDir, "evidence", "replay", *prop+"-*.json")); *only == "" {
		for _, f := range old {
			os.Remove(f)
		}
	}

	exit := 0
	var evObs []obEvidence
	funcs := map[string]bool{}
	stubs := map[string]bool{}
	var samples []interface{}
	totalPaths, totalFinal, violations, totalDecisions := 0, 0, 0, 0
	machinery := []string{}
	knownLines := map[string]bool{}
	replayN := 0
	for _, ob := range sel {
		r := P.RunObligation(ob, *tier)
		totalPaths += r.Paths
		totalFinal += r.FinalQ
		totalDecisions += r.Decisions
		oe := obEvidence{Name: ob.Name, Harness: ob.Func, Paths: r.Paths, Ends: r.Ends, EndSamples: r.EndSamples, Asserts: r.Asserts,
			FinalQueries: r.FinalQ, Inconclusive: r.Inconcl, WallS: r.WallS, Unwind: ob.Unwind, Params: ob.Params, Note: ob.Note}
		if oe.Unwind == 0 {
			oe.Unwind = 64
		}
		for k := range r.Reached {
			oe.Reached = append(oe.Reached, k)
		}
		sort.Strings(oe.Reached)
		for k := range r.Funcs {
			funcs[k] = true
		}
		for k := range r.Stubs {
			stubs[k] = true
		}
		for _, s := range r.Samples {
			if len(samples) < 12 {
				samples = append(samples, ob.Name+": "+s)
			}
		}
		fmt.Printf("[%s/%s] paths=%d ends=%v asserts=%v final=%d inconclusive=%d findings=%d %.1fs\n", ob.Prop, ob.Name, r.Paths, r.Ends, r.Asserts, r.FinalQ, len(r.Inconcl), len(r.Findings), r.WallS)
		if *verbose {
			for k, v := range r.EndSamples {
				for _, s := range v {
					fmt.Printf("    end %s: %s\n", k, s)
				}
			}
			for _, s := range r.Inconcl {
				fmt.Println("    inconclusive:", s)
			}
		}
		// machinery failures: never success
		for _, e := range r.InternalErr {
			machinery = append(machinery, ob.Name+": "+e)
		}
		if r.Ends["unsupported"] > 0 {
			machinery = append(machinery, fmt.Sprintf("%s: %d paths ended UNSUPPORTED: %v", ob.Name, r.Ends["unsupported"], r.EndSamples["unsupported"]))
		}
		if r.Ends["unwind"] > 0 && !ob.AllowUnwind {
			machinery = append(machinery, fmt.Sprintf("%s: %d paths hit the unwinding bound: %v", ob.Name, r.Ends["unwind"], r.EndSamples["unwind"]))
		}
		if r.Budget {
			machinery = append(machinery, fmt.Sprintf("%s: path budget exhausted", ob.Name))
		}
		if r.Aborted {
			machinery = append(machinery, fmt.Sprintf("%s: abandoned after too many inconclusive solver answers or at its wall-clock budget: not all paths were explored", ob.Name))
		}
		if len(r.Inconcl) > 0 {
			machinery = append(machinery, fmt.Sprintf("%s: %d inconclusive final queries: %v", ob.Name, len(r.Inconcl), r.Inconcl[0]))
		}
		for _, l := range ob.Asserts {
			if !r.Reached[l] {
				machinery = append(machinery, fmt.Sprintf("%s: assertion %q never reached on a satisfiable path (vacuous)", ob.Name, l))
			}
		}
		// findings: replay and classify
		perLabel := map[string]int{}
		knownReplayed := map[string]bool{}
		for _, f := range r.Findings {
			key := f.Label + "@" + f.Pos
			// classify on the solver's model first: findings listed in known_findings.json
			var kf *knownFinding
			for i := range known {
				if known[i].matches(ob.Prop, ob.Name, f) {
					kf = &known[i]
					break
				}
			}
			if kf != nil {
				if knownReplayed[kf.What] {
					continue // one native confirmation per listed finding
				}
				knownReplayed[kf.What] = true
			} else {
				perLabel[key]++
				if perLabel[key] > 3 {
					continue
				}
			}
			replayN++
			path, doc := writeReplay(ob.Prop, ob, f, replayN, bi)
			outcome := "not replayed"
			ok := true
			if !*noReplay {
				outcome = nativeReplay(path, doc, bi)
				ok = reproduced(f, outcome)
				doc.Outcome = outcome
				b, _ := json.MarshalIndent(doc, "", " ")
				os.WriteFile(path, b, 0o644)
			}
			desc := fmt.Sprintf("%s %s @%s: %s | native: %s", f.Kind, f.Label, f.Pos, f.Msg, outcome)
			oe.Findings = append(oe.Findings, desc)
			samples = append(samples, map[string]interface{}{"counterexample": desc, "replay": path, "values": doc.Values})
			if !ok {
				machinery = append(machinery, fmt.Sprintf("%s: SPURIOUS counterexample (does not reproduce natively): %s", ob.Name, desc))
				continue
			}
			if kf != nil {
				line := fmt.Sprintf("KNOWN-FINDING: property=%s %s", ob.Prop, kf.What)
				if !knownLines[line] {
					knownLines[line] = true
					fmt.Println(line)
				}
				continue
			}
			violations++
			fmt.Printf("VIOLATION property=%s replay=%s\n", ob.Prop, path)
			fmt.Printf("  %s\n", desc)
			exit = 1
		}
		evObs = append(evObs, oe)
	}
	unsatN, totalN := P.NontrivialFinals()
	branchQ, branchUnsat := P.BranchQueries()
	ev := map[string]interface{}{
		"property_id": *prop, "tier": *tier, "seed": seed, "level": "model_checking",
		"wall_s": time.Since(t0).Seconds(), "violations": violations,
		"coverage": map[string]interface{}{
			"evaluations":         totalN + branchQ + totalPaths,
			"distinct_nontrivial": unsatN + branchUnsat,
			"rule": "one evaluation = one explored symbolic path of a harness, one distinct final SMT query (path condition AND NOT assertion) or one distinct branch-feasibility query (path condition AND branch condition); " +
				"distinct_nontrivial counts the distinct queries (keyed by the set of hash-consed conjuncts) that term simplification did not decide and that the solver answered unsat, i.e. assertions discharged plus program branches proved infeasible (e.g. the accepting branch of the verifier after tampering)",
			"branch_queries":                branchQ,
			"branch_queries_unsat":          branchUnsat,
			"samples":                       samples,
			"obligation_details":            evObs,
			"obligations":                   totalN,
			"discharged":                    unsatN,
			"states":                        totalPaths,
			"transitions":                   totalDecisions + totalPaths,
			"traces_validated_against_impl": replayN,
			"paths":                         totalPaths,
			"final_queries":                 totalN,
			"final_queries_unsat":           unsatN,
			"functions_encoded":             sortedKeys(funcs),
			"stubs_and_assumptions":         sortedKeys(stubs),
			"solver_queries":                smt.Global.Queries,
			"solver_time_s":                 smt.Global.TimeS,
			"solver_error_lines":            smt.Global.Errors,
			"load_s":                        loadS,
			"machinery_failures":            machinery,
			"explanation":                   "bounded symbolic execution of the real Go code (go/ssa of /repo's working tree, regenerated on this run) into SMT-LIB2; bounds per obligation are listed under obligations[].unwind_bound/params and in MANIFEST level_note",
		},
		"assumptions": append([]string{"the go/ssa -> SMT-LIB2 encoder and its models of math/big are faithful (every counterexample is replayed natively; unsat answers rest on the encoder)", "z3 4.8.12 / z3 5.1.0 / cvc5 1.0.3 answer correctly; any (error line makes an answer inconclusive"}, sortedKeys(stubs)...),
	}
	if len(samples) == 0 {
		ev["coverage"].(map[string]interface{})["samples"] = []interface{}{"no sample recorded"}
	}
	b, _ := json.MarshalIndent(ev, "", " ")
	os.MkdirAll(filepath.Join(verifDir, "evidence"), 0o755)
	os.WriteFile(filepath.Join(verifDir, "evidence", *prop+".json"), b, 0o644)
	if len(machinery) > 0 {
		for _, m := range machinery {
			fmt.Println("MACHINERY-FAILURE:", m)
		}
		if exit == 0 {
			exit = 2
		}
	}
	fmt.Printf("%s %s: obligations=%d paths=%d final_queries=%d (unsat %d) violations=%d wall=%.1fs exit=%d\n", *prop, *tier, len(sel), totalPaths, totalN, unsatN, violations, time.Since(t0).Seconds(), exit)
	return exit
}

func sortedKeys(m map[string]bool) []string {
	out := []string{}
	for k := range m {
		out = append(out, k)
	}
	sort.Strings(out)
	return out
}
