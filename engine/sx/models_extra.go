package sx

import (
	"fmt"
	"hash/fnv"
	"math/big"

	"gabiverif/smt"

	"golang.org/x/tools/go/ssa"
)

// digestSlice materialises a 32-byte digest whose integer value is h.
func (ex *Exec) digestSlice(h *smt.Term, n int) Slice {
	sl := ex.makeSlice(byteType, n, n)
	for i := 0; i < n; i++ {
		sl.A.E[i].V = smt.Mod(smt.Div(h, smt.Pow2(uint(8*(n-1-i)))), smt.I64(256))
	}
	ex.digests[sl.A] = h
	return sl
}

func strCode(s string) BigVal {
	f := fnv.New64a()
	f.Write([]byte(s))
	return BigVal{I: smt.IntC(new(big.Int).SetUint64(f.Sum64()))}
}

func registerExtraModels(P *Program) {
	m := P.models
	// keyshareUserCommitmentsHash: SHA-256 over the CBOR encoding of the challenge
	// input: an injective function of its structure (uninterpreted hash).
	m[TargetModule+".keyshareUserCommitmentsHash"] = func(ex *Exec, fn *ssa.Function, args []Value) (Value, bool) {
		in := args[0].(Slice)
		hargs := []BigVal{{I: smt.I64(int64(in.Len))}}
		for i := 0; i < in.Len; i++ {
			e := ex.load(in.A.E[in.Off+i]).(*Struct)
			// fields: KeyID *T, Value, Commitment *big.Int, OtherCommitments []*big.Int
			kid := e.F[0].(Pointer)
			if kid.C == nil {
				hargs = append(hargs, BigVal{I: smt.I64(0)})
			} else {
				switch k := kid.C.V.(type) {
				case string:
					hargs = append(hargs, BigVal{I: smt.I64(1)}, strCode(k))
				case *smt.Term:
					hargs = append(hargs, BigVal{I: smt.I64(1)}, BigVal{I: k})
				default:
					ex.unsupported("keyshare key id of type %T", kid.C.V)
				}
			}
			for _, f := range []Value{e.F[1], e.F[2]} {
				if p := f.(Pointer); p.C == nil {
					hargs = append(hargs, BigVal{I: smt.I64(-1)})
				} else {
					hargs = append(hargs, p.C.V.(BigVal))
				}
			}
			oc := e.F[3].(Slice)
			hargs = append(hargs, BigVal{I: smt.I64(int64(oc.Len))})
			for k := 0; k < oc.Len; k++ {
				hargs = append(hargs, ex.argBig(ex.load(oc.A.E[oc.Off+k]), "OtherCommitments"))
			}
		}
		h := ex.hashApply(fmt.Sprintf("keysharehash/%d", len(hargs)), hargs, 256)
		return Tuple{ex.digestSlice(h, 32), Iface{}}, true
	}
	m["crypto/subtle.ConstantTimeCompare"] = func(ex *Exec, fn *ssa.Function, args []Value) (Value, bool) {
		x, y := args[0].(Slice), args[1].(Slice)
		if x.Len != y.Len {
			return smt.I64(0), true
		}
		if x.A != nil && y.A != nil {
			hx, okx := ex.digests[x.A]
			hy, oky := ex.digests[y.A]
			if okx && oky && x.Off == 0 && y.Off == 0 && x.Len == len(x.A.E) && y.Len == len(y.A.E) {
				return smt.Ite(ex.termEq(hx, hy), smt.I64(1), smt.I64(0)), true
			}
		}
		eq := smt.True
		for i := 0; i < x.Len; i++ {
			eq = smt.And(eq, smt.Eq(term(ex.load(x.A.E[x.Off+i])), term(ex.load(y.A.E[y.Off+i]))))
		}
		return smt.Ite(eq, smt.I64(1), smt.I64(0)), true
	}
}
