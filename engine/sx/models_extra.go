package sx

func registerExtraModels(P *Program) {}
