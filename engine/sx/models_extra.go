package sx

import (
	"fmt"
	"go/token"
	"go/types"
	"hash/fnv"
	"io/fs"
	"math/big"
	"strconv"
	"strings"

	"gabiverif/smt"

	"golang.org/x/tools/go/ssa"
)

// digestSlice materialises a 32-byte digest whose integer value is h.
func (ex *Exec) digestSlice(h *smt.Term, n int) Slice {
	sl := ex.makeSlice(byteType, n, n)
	for i := 0; i < n; i++ {
		sl.A.E[i].V = smt.Mod(smt.Div(h, smt.Pow2(uint(8*(n-1-i)))), smt.I64(256))
	}
	ex.digests[sl.A] = h
	return sl
}

func strCode(s string) BigVal {
	f := fnv.New64a()
	f.Write([]byte(s))
	return BigVal{I: smt.IntC(new(big.Int).SetUint64(f.Sum64()))}
}

func registerExtraModels(P *Program) {
	registerRevocationModels(P)
	registerEncodingModels(P)
	registerFsModels(P)
	registerBinaryModels(P)
	registerKeygenModels(P)
	m := P.models
	// cbor.Marshal: an injective structural encoding of the Go value (kinds, lengths,
	// field names, strings, integers; gabi big.Int by magnitude, as its MarshalBinary does)
	m["github.com/fxamacker/cbor.Marshal"] = func(ex *Exec, fn *ssa.Function, args []Value) (Value, bool) {
		var es []derElem
		ex.cborFlatten(args[0], args[0].(Iface).T, &es, 0)
		a := &ArrObj{}
		ex.derBlobs[a] = es
		ex.stubs["cbor.Marshal is an injective structural encoding (kinds, lengths, field names, values); SHA-256 of it is an injective uninterpreted function"] = true
		return Tuple{Slice{A: a, Len: 0, Cap: 0}, Iface{}}, true
	}
	m["crypto/subtle.ConstantTimeCompare"] = func(ex *Exec, fn *ssa.Function, args []Value) (Value, bool) {
		x, y := args[0].(Slice), args[1].(Slice)
		if x.A != nil && y.A != nil {
			// the byte strings of two (wide) big integers: equal exactly when the magnitudes are
			bx, okx := ex.blobs[x.A]
			by, oky := ex.blobs[y.A]
			if okx && oky {
				return smt.Ite(ex.termEq(bx.I, by.I), smt.I64(1), smt.I64(0)), true
			}
		}
		if x.Len != y.Len {
			return smt.I64(0), true
		}
		if x.A != nil && y.A != nil {
			hx, okx := ex.digests[x.A]
			hy, oky := ex.digests[y.A]
			if okx && oky && x.Off == 0 && y.Off == 0 && x.Len == len(x.A.E) && y.Len == len(y.A.E) {
				return smt.Ite(ex.termEq(hx, hy), smt.I64(1), smt.I64(0)), true
			}
		}
		eq := smt.True
		for i := 0; i < x.Len; i++ {
			eq = smt.And(eq, smt.Eq(term(ex.load(x.A.E[x.Off+i])), term(ex.load(y.A.E[y.Off+i]))))
		}
		return smt.Ite(eq, smt.I64(1), smt.I64(0)), true
	}
}

// SignedMsg is the model of a signed.Message (CBOR tuple of payload and ECDSA signature).
type SignedMsg struct {
	Key     int
	Valid   *smt.Term
	Payload Value // struct value of the signed object
}

func ecdsaKeyID(v Value) (int, bool) {
	p, ok := v.(Pointer)
	if !ok || p.C == nil {
		return 0, false
	}
	o, ok := p.C.V.(*Opaque)
	if !ok {
		return 0, false
	}
	id, ok := o.Data.(int)
	return id, ok
}

func (ex *Exec) newByteVar(prefix string) *smt.Term {
	return ex.freshInt(prefix, big.NewInt(0), big.NewInt(255))
}

func registerRevocationModels(P *Program) {
	m := P.models
	const mh = "github.com/multiformats/go-multihash"
	const signedPkg = TargetModule + "/signed"
	// multihash.Sum(data, SHA2_256, -1): [0x12, 0x20, 32 digest bytes]; the digest is an
	// injective function of the data bytes (32 fresh bytes per application).
	m[mh+".Sum"] = func(ex *Exec, fn *ssa.Function, args []Value) (Value, bool) {
		data := args[0].(Slice)
		code, ok := term(args[1]).ConstInt64()
		if !ok || code != 0x12 {
			return Tuple{Slice{}, ex.freshError("multihash: unsupported code")}, true
		}
		hargs := []BigVal{{I: smt.I64(int64(data.Len))}}
		for i := 0; i < data.Len; i++ {
			hargs = append(hargs, BigVal{I: term(ex.load(data.A.E[data.Off+i]))})
		}
		bytes := ex.hashBytesApply(fmt.Sprintf("mhsha256/%d", data.Len), hargs, 32)
		sl := ex.makeSlice(byteType, 34, 34)
		sl.A.E[0].V = smt.I64(0x12)
		sl.A.E[1].V = smt.I64(0x20)
		for i, b := range bytes {
			sl.A.E[2+i].V = b
		}
		return Tuple{sl, Iface{}}, true
	}
	m[mh+".Encode"] = func(ex *Exec, fn *ssa.Function, args []Value) (Value, bool) {
		buf := args[0].(Slice)
		code, ok := term(args[1]).ConstInt64()
		if !ok || code >= 0x80 || buf.Len >= 0x80 {
			ex.unsupported("multihash.Encode with code %v len %d", args[1], buf.Len)
		}
		sl := ex.makeSlice(byteType, 2+buf.Len, 2+buf.Len)
		sl.A.E[0].V = smt.I64(code)
		sl.A.E[1].V = smt.I64(int64(buf.Len))
		for i := 0; i < buf.Len; i++ {
			sl.A.E[2+i].V = ex.load(buf.A.E[buf.Off+i])
		}
		return Tuple{sl, Iface{}}, true
	}
	// multihash.Decode: single-byte varints only (buffers here are < 128 bytes); a
	// first byte >= 0x80 is reported as an error (the caller rejects such codes anyway).
	m[mh+".Decode"] = func(ex *Exec, fn *ssa.Function, args []Value) (Value, bool) {
		buf := args[0].(Slice)
		fail := func(msg string) (Value, bool) { return Tuple{Pointer{}, ex.freshError(msg)}, true }
		if buf.Len < 2 {
			return fail("multihash too short")
		}
		b0 := term(ex.load(buf.A.E[buf.Off]))
		b1 := term(ex.load(buf.A.E[buf.Off+1]))
		if !ex.branch(smt.Lt(b0, smt.I64(0x80))) {
			ex.stubs["multihash.Decode: multi-byte varint codes are reported as errors (Hash.Algorithm rejects them in any case)"] = true
			return fail("multihash: varint code")
		}
		if !ex.branch(smt.Le(b1, smt.I64(int64(buf.Len-2)))) {
			return fail("multihash: length greater than remaining number of bytes")
		}
		conds := make([]*smt.Term, buf.Len-1)
		for k := range conds {
			conds[k] = smt.Eq(b1, smt.I64(int64(k)))
		}
		n := ex.choose(conds)
		res := ex.zero(fn.Signature.Results().At(0).Type().(*types.Pointer).Elem()).(*Struct)
		// DecodedMultihash{Code uint64, Name string, Length int, Digest []byte}
		res.F[0] = b0
		res.F[1] = "?"
		res.F[2] = smt.I64(int64(n))
		res.F[3] = Slice{A: buf.A, Off: buf.Off + 2, Len: n, Cap: n}
		return Tuple{Pointer{C: ex.cellOf(res)}, Iface{}}, true
	}
	m[signedPkg+".MarshalSign"] = func(ex *Exec, fn *ssa.Function, args []Value) (Value, bool) {
		id, ok := ecdsaKeyID(args[0])
		if !ok {
			ex.goPanic("nil pointer dereference (ECDSA private key)")
		}
		msg := args[1].(Iface)
		p, ok := msg.V.(Pointer)
		if !ok || p.C == nil {
			ex.unsupported("MarshalSign of %T", msg.V)
		}
		a := &ArrObj{E: []*Cell{ex.cellOf(smt.I64(0))}}
		ex.signedMsgs[a] = &SignedMsg{Key: id, Valid: smt.True, Payload: ex.load(p.C)}
		return Tuple{Slice{A: a, Len: 1, Cap: 1}, Iface{}}, true
	}
	m[signedPkg+".UnmarshalVerify"] = func(ex *Exec, fn *ssa.Function, args []Value) (Value, bool) {
		sl := args[1].(Slice)
		var sm *SignedMsg
		if sl.A != nil {
			sm = ex.signedMsgs[sl.A]
		}
		if sm == nil {
			return ex.freshError("cbor: malformed signed message"), true
		}
		id, ok := ecdsaKeyID(args[0])
		if !ok {
			ex.goPanic("nil pointer dereference (ECDSA public key used by ecdsa.Verify)")
		}
		if id != sm.Key || !ex.branch(sm.Valid) {
			return ex.freshError("ecdsa signature was invalid"), true
		}
		dst := args[2].(Iface).V.(Pointer)
		ex.store(dst.C, sm.Payload)
		return Iface{}, true
	}
	m[commonPkg+".RandomQR"] = func(ex *Exec, fn *ssa.Function, args []Value) (Value, bool) {
		n := ex.argBig(args[0], "RandomQR")
		name := ex.fresh("qr")
		ex.noteVar(name)
		iv := smt.Var(name, smt.Int, big.NewInt(1), n.I.Hi)
		ex.atoms[name] = true
		if ex.modKind(n.I) == "" {
			ex.modKinds[n.I.ID] = &ModInfo{Kind: "group", Name: "mod"}
		}
		g := &GroupFacet{Mod: n.I, Exps: map[string]*smt.Term{name: realOne}, Reduced: true}
		return ex.newBig(BigVal{I: iv, G: g}), true
	}
}

// hashBytesApply is like hashApply for hashes consumed byte-wise: every
// application gets n fresh bytes; equal inputs <=> equal bytes.
func (ex *Exec) hashBytesApply(kind string, args []BigVal, n int) []*smt.Term {
	for _, h := range ex.hashes {
		if h.Kind != kind || len(h.Args) != len(args) {
			continue
		}
		same := true
		for i := range args {
			if h.Args[i].I != args[i].I {
				same = false
				break
			}
		}
		if same {
			return h.Bytes
		}
	}
	bs := make([]*smt.Term, n)
	for i := range bs {
		bs[i] = ex.newByteVar("hbyte")
	}
	ex.hashes = append(ex.hashes, &HashApp{Kind: kind, Args: args, Bytes: bs})
	ex.hashAx = nil
	return bs
}

// ---------- Fiat-Shamir encoding (C15): asn1.Marshal + SHA-256 ----------

type derElem struct {
	Kind string // "bool" | "int"
	Val  *smt.Term
}

func derKey(es []derElem) string {
	k := ""
	for _, e := range es {
		k += e.Kind[:1]
	}
	return k
}

func (ex *Exec) specDigest(es []derElem) *smt.Term {
	var hargs []BigVal
	for _, e := range es {
		hargs = append(hargs, BigVal{I: e.Val})
	}
	ex.stubs["SHA-256(DER(SEQUENCE of BOOLEAN/INTEGER)) is an injective uninterpreted function of the element list; encoding/asn1 and crypto/sha256 themselves are not encoded"] = true
	return ex.hashApply("sha256(der:"+derKey(es)+")", hargs, 256)
}

func registerEncodingModels(P *Program) {
	m := P.models
	m["encoding/asn1.Marshal"] = func(ex *Exec, fn *ssa.Function, args []Value) (Value, bool) {
		v := args[0].(Iface)
		sl, ok := v.V.(Slice)
		if !ok {
			ex.unsupported("asn1.Marshal of %T", v.V)
		}
		var es []derElem
		for i := 0; i < sl.Len; i++ {
			e, ok := ex.load(sl.A.E[sl.Off+i]).(Iface)
			if !ok || e.T == nil {
				return Tuple{Slice{}, ex.freshError("asn1: nil element")}, true
			}
			switch x := e.V.(type) {
			case *smt.Term:
				if x.Sort == smt.Bool {
					es = append(es, derElem{"bool", smt.Ite(x, smt.I64(1), smt.I64(0))})
				} else {
					es = append(es, derElem{"int", x})
				}
			case Pointer:
				if x.C == nil {
					return Tuple{Slice{}, ex.freshError("asn1: nil big.Int")}, true
				}
				b, ok := x.C.V.(BigVal)
				if !ok {
					ex.unsupported("asn1.Marshal element %T", x.C.V)
				}
				es = append(es, derElem{"int", b.I})
			default:
				ex.unsupported("asn1.Marshal element %T", e.V)
			}
		}
		a := &ArrObj{}
		ex.derBlobs[a] = es
		return Tuple{Slice{A: a, Len: 0, Cap: 0}, Iface{}}, true
	}
	m["crypto/sha256.Sum256"] = func(ex *Exec, fn *ssa.Function, args []Value) (Value, bool) {
		data := args[0].(Slice)
		var h *smt.Term
		if data.A != nil {
			if es, ok := ex.derBlobs[data.A]; ok {
				h = ex.specDigest(es)
			}
		}
		if h == nil {
			hargs := []BigVal{{I: smt.I64(int64(data.Len))}}
			for k := 0; k < data.Len; k++ {
				hargs = append(hargs, BigVal{I: term(ex.load(data.A.E[data.Off+k]))})
			}
			h = ex.hashApply("sha256bytes", hargs, 256)
		}
		arr := &Array{E: make([]Value, 32)}
		for i := 0; i < 32; i++ {
			arr.E[i] = smt.Mod(smt.Div(h, smt.Pow2(uint(8*(31-i)))), smt.I64(256))
		}
		ex.digestVals[arr] = h
		return arr, true
	}
}

func tagElem(tag string) derElem { return derElem{Kind: "tag", Val: strCode(tag).I} }

// cborFlatten appends an injective flattening of v to es.
func (ex *Exec) cborFlatten(v Value, t types.Type, es *[]derElem, depth int) {
	if depth > 12 {
		ex.unsupported("cbor.Marshal: value too deep")
	}
	switch x := v.(type) {
	case Iface:
		if x.T == nil {
			*es = append(*es, tagElem("nil"))
			return
		}
		ex.cborFlatten(x.V, x.T, es, depth+1)
	case Pointer:
		if x.C == nil {
			*es = append(*es, tagElem("nil"))
			return
		}
		if b, ok := x.C.V.(BigVal); ok {
			*es = append(*es, tagElem("big"), derElem{"int", smt.Abs(b.I)})
			return
		}
		var et types.Type
		if pt, ok := t.Underlying().(*types.Pointer); ok {
			et = pt.Elem()
		}
		ex.cborFlatten(ex.load(x.C), et, es, depth+1)
	case *Struct:
		st, _ := t.Underlying().(*types.Struct)
		*es = append(*es, tagElem(fmt.Sprintf("struct:%d", len(x.F))))
		for i, f := range x.F {
			var ft types.Type
			name := fmt.Sprintf("f%d", i)
			if st != nil {
				ft = st.Field(i).Type()
				name = st.Field(i).Name() + "`" + st.Tag(i)
			}
			*es = append(*es, tagElem(name))
			ex.cborFlatten(f, ft, es, depth+1)
		}
	case Slice:
		var et types.Type
		if t != nil {
			if sl, ok := t.Underlying().(*types.Slice); ok {
				et = sl.Elem()
			}
		}
		if x.A == nil {
			*es = append(*es, tagElem("nil"))
			return
		}
		if d, ok := ex.digests[x.A]; ok {
			*es = append(*es, tagElem("bytes"), derElem{"int", d})
			return
		}
		*es = append(*es, tagElem(fmt.Sprintf("arr:%d", x.Len)))
		for i := 0; i < x.Len; i++ {
			ex.cborFlatten(ex.load(x.A.E[x.Off+i]), et, es, depth+1)
		}
	case string:
		*es = append(*es, tagElem("str"), derElem{"int", strCode(x).I})
	case *smt.Term:
		if x.Sort == smt.Bool {
			*es = append(*es, tagElem("bool"), derElem{"int", smt.Ite(x, smt.I64(1), smt.I64(0))})
		} else {
			*es = append(*es, tagElem("int"), derElem{"int", x})
		}
	case BigVal:
		*es = append(*es, tagElem("big"), derElem{"int", smt.Abs(x.I)})
	default:
		ex.unsupported("cbor.Marshal of %T", v)
	}
}

// ---------- a small POSIX file model (C18) ----------

type fsFile struct {
	Exists  *smt.Term // Bool
	Mode    *smt.Term // permission bits
	HasData *smt.Term // Bool: key material was written
	Created bool      // created by this process (fchmod cannot fail then)
	Link    *smt.Term // Bool: the path is a symbolic link to the (existing) file described here
}

func (ex *Exec) fsGet(name string) *fsFile {
	if f, ok := ex.fs[name]; ok {
		return f
	}
	f := &fsFile{Exists: smt.False, Mode: smt.I64(0), HasData: smt.False, Link: smt.False}
	ex.fs[name] = f
	return f
}

func registerKeygenModels(P *Program) {
	m := P.models
	// common.FastMod.Set with a symbolic modulus: the fast path (p = 2^b - c) is what C19/FastMod checks
	// against plain reduction; here the structure is put into its general mode, where Mod is big.Int.Mod
	m["(*"+TargetModule+"/internal/common.FastMod).Set"] = func(ex *Exec, fn *ssa.Function, args []Value) (Value, bool) {
		pb, ok := bigOf(args[1])
		if !ok {
			return nil, false
		}
		if _, isConst := pb.I.ConstInt(); isConst {
			return nil, false // concrete moduli run the real code
		}
		so := args[0].(Pointer).C.V.(*StructObj)
		so.F[0].V = smt.False // enabled
		so.F[1].V = pb        // p
		ex.stubs["common.FastMod with a symbolic modulus is plain reduction (its fast path is the subject of C19/FastMod)"] = true
		return nil, true
	}
	// the four Gennaro-style sub-verifiers of the quasi-safe-prime-product proof, for the obligation about how
	// quasiSafePrimeProductVerifyProof combines them (param stub_gennaro): each returns an arbitrary verdict,
	// a boolean variable named after the function, the modulus and the proof index it was called with
	for _, fnName := range []string{"squareFreeVerifyProof", "primePowerProductVerifyProof", "disjointPrimeProductVerifyProof", "almostSafePrimeProductVerifyProof"} {
		fnName := fnName
		m[TargetModule+"/keyproof."+fnName] = func(ex *Exec, fn *ssa.Function, args []Value) (Value, bool) {
			if ex.Ob.Param("stub_gennaro", 0) == 0 {
				return nil, false
			}
			n, _ := bigOf(args[0])
			idx, _ := bigOf(args[2])
			name := fmt.Sprintf("verdict_%s_N%s_idx%s", fnName, n.I.String(), idx.I.String())
			ex.noteVar(name)
			ex.stubs["keyproof sub-verifiers return arbitrary verdicts (obligation about their combination only)"] = true
			return smt.Var(name, smt.Bool, nil, nil), true
		}
	}
	// go-exptable: a table remembers base and modulus; Exp is modular exponentiation
	m["(*github.com/bwesterb/go-exptable.Table).Compute"] = func(ex *Exec, fn *ssa.Function, args []Value) (Value, bool) {
		o := args[0].(Pointer).C.V.(*Opaque)
		b, _ := bigOf(args[1])
		n, _ := bigOf(args[2])
		o.Data = [2]BigVal{b, n}
		ex.stubs["go-exptable: Table.Exp(e) = base^e mod modulus"] = true
		return nil, true
	}
	m["(*github.com/bwesterb/go-exptable.Table).Exp"] = func(ex *Exec, fn *ssa.Function, args []Value) (Value, bool) {
		o := args[0].(Pointer).C.V.(*Opaque)
		d, ok := o.Data.([2]BigVal)
		if !ok {
			ex.goPanic("exptable.Table used before Compute")
		}
		e, _ := bigOf(args[2])
		ret := args[1].(Pointer)
		if ret.C == nil {
			ex.goPanic("nil result operand (exptable.Table.Exp)")
		}
		ret.C.V = ex.bigExp(d[0], e, ex.newBig(d[1]))
		return nil, true
	}
	// safeprime.GenerateConcurrent: the worker pool is replaced by a channel that yields, on every
	// receive, a fresh safe prime of the requested size (top two bits set, as prepareBytes ensures)
	safePrime := func(ex *Exec, bits int64) Value {
		lo := new(big.Int).Mul(big.NewInt(3), smt.Pow2Big(uint(bits-2)))
		hi := new(big.Int).Sub(smt.Pow2Big(uint(bits)), big.NewInt(1))
		p := ex.freshInt("safeprime", lo, hi)
		ex.assume(smt.Eq(smt.Mod(p, smt.I64(2)), smt.I64(1)))
		ex.assumePrime(p)
		ex.assume(isPrime(smt.Div(p, smt.I64(2))))
		ex.assume(smt.Eq(smt.Mod(smt.Div(p, smt.I64(2)), smt.I64(2)), smt.I64(1)))
		return ex.newBig(BigVal{I: p})
	}
	// safeprime.Generate (with param stub_generate, for the obligations about the worker pool): returns
	// (nil, nil) once the stop channel is closed, otherwise a fresh safe prime - or, with param genfail,
	// an error (failing randomness source)
	m[TargetModule+"/safeprime.Generate"] = func(ex *Exec, fn *ssa.Function, args []Value) (Value, bool) {
		if ex.Ob.Param("stub_generate", 0) == 0 {
			return nil, false
		}
		bits, ok := term(args[0]).ConstInt64()
		if !ok || bits < 4 {
			ex.unsupported("Generate with symbolic size")
		}
		ex.stubs["safeprime.Generate is a stub: (nil, nil) once its stop channel is closed, otherwise a fresh safe prime of the requested size (or an error, where the obligation allows the randomness source to fail)"] = true
		stop, _ := args[1].(*Chan)
		ex.yieldPoint(nil, nil)
		if stop != nil && stop.Closed {
			return Tuple{Pointer{}, Iface{}}, true
		}
		if ex.Ob.Param("genfail", 0) == 1 && ex.branch(smt.Var(ex.fresh("generateFails"), smt.Bool, nil, nil)) {
			return Tuple{Pointer{}, ex.freshError("randomness source failed")}, true
		}
		return Tuple{safePrime(ex, bits), Iface{}}, true
	}
	m[TargetModule+"/safeprime.GenerateConcurrent"] = func(ex *Exec, fn *ssa.Function, args []Value) (Value, bool) {
		if ex.Ob.Param("real_concurrent", 0) == 1 {
			return nil, false
		}
		bits, ok := term(args[0]).ConstInt64()
		if !ok || bits < 4 {
			ex.unsupported("GenerateConcurrent with symbolic size")
		}
		ex.stubs["safeprime.GenerateConcurrent is a stub: every receive yields a fresh safe prime p (p and (p-1)/2 prime by the uninterpreted predicate) with exactly the requested number of bits and its two top bits set; scheduling, stop protocol and termination are not encoded"] = true
		lo := new(big.Int).Mul(big.NewInt(3), smt.Pow2Big(uint(bits-2)))
		hi := new(big.Int).Sub(smt.Pow2Big(uint(bits)), big.NewInt(1))
		ints := &Chan{Cap: 4, Gen: func(ex *Exec) (Value, bool) {
			p := ex.freshInt("safeprime", lo, hi)
			ex.assume(smt.Eq(smt.Mod(p, smt.I64(2)), smt.I64(1)))
			ex.assumePrime(p)
			ex.assume(isPrime(smt.Div(p, smt.I64(2))))
			// (p-1)/2 is an odd prime as well
			ex.assume(smt.Eq(smt.Mod(smt.Div(p, smt.I64(2)), smt.I64(2)), smt.I64(1)))
			return ex.newBig(BigVal{I: p}), true
		}}
		errs := &Chan{Cap: 4}
		return Tuple{ints, errs}, true
	}
	// assume-guarantee: with param stub_pair the pair generator is replaced by its contract,
	// which obligation C16/O1 establishes for the real code
	m[TargetModule+"/gabikeys.generateSafePrimePair"] = func(ex *Exec, fn *ssa.Function, args []Value) (Value, bool) {
		if ex.Ob.Param("stub_pair", 0) == 0 {
			return nil, false
		}
		params := args[0].(Pointer).C.V.(*StructObj)
		var ln int64 = -1
		// BaseParameters is the first embedded struct; Ln is its 4th field
		if bp, ok := params.F[0].V.(*StructObj); ok {
			ln, _ = term(bp.F[3].V).ConstInt64()
		}
		if ln < 8 {
			ex.unsupported("generateSafePrimePair stub needs a concrete Ln")
		}
		bits := uint(ln / 2)
		lo := new(big.Int).Mul(big.NewInt(3), smt.Pow2Big(bits-2))
		hi := new(big.Int).Sub(smt.Pow2Big(bits), big.NewInt(1))
		mk := func(n string) *smt.Term {
			p := ex.freshInt(n, lo, hi)
			ex.assume(smt.Eq(smt.Mod(p, smt.I64(2)), smt.I64(1)))
			ex.assumePrime(p)
			ex.assume(isPrime(smt.Div(p, smt.I64(2))))
			return p
		}
		pp, qq := mk("pairP"), mk("pairQ")
		ex.assume(smt.Ne(smt.Mod(pp, smt.I64(8)), smt.Mod(qq, smt.I64(8))))
		ex.stubs["generateSafePrimePair replaced by its contract (established by C16/O1): two safe primes of Ln/2 bits with top two bits set, different modulo 8"] = true
		return Tuple{ex.newBig(BigVal{I: pp}), ex.newBig(BigVal{I: qq}), Iface{}}, true
	}
	m[commonPkg+".LegendreSymbol"] = func(ex *Exec, fn *ssa.Function, args []Value) (Value, bool) {
		a, p := ex.argBig(args[0], "LegendreSymbol"), ex.argBig(args[1], "LegendreSymbol")
		if a.I.IsConst() && p.I.IsConst() || (p.I.Hi != nil && p.I.Hi.BitLen() <= 16) {
			return nil, false // small or concrete: run the real code
		}
		ex.stubs["common.LegendreSymbol on large symbolic operands is an uninterpreted function with values in {-1,0,1}"] = true
		return smt.App("legendre", smt.Int, big.NewInt(-1), big.NewInt(1), a.I, p.I), true
	}
	const signedPkg = TargetModule + "/signed"
	m[signedPkg+".GenerateKey"] = func(ex *Exec, fn *ssa.Function, args []Value) (Value, bool) {
		ex.cellSeq++
		so := ex.cellOf(ex.zero(fn.Signature.Results().At(0).Type().(*types.Pointer).Elem()))
		_ = so
		return Tuple{Pointer{C: &Cell{ID: ex.cellSeq, V: &Opaque{Kind: "ecdsa.PrivateKey", Data: 99}}}, Iface{}}, true
	}
	// UnmarshalPrivateKey: the bytes "vpgood" are the one well-formed key, everything else is refused
	m[signedPkg+".UnmarshalPrivateKey"] = func(ex *Exec, fn *ssa.Function, args []Value) (Value, bool) {
		b := args[0].(Slice)
		good := b.Len == 6
		for i := 0; good && i < 6; i++ {
			c, ok := term(ex.load(b.A.E[b.Off+i])).ConstInt64()
			good = ok && byte(c) == "vpgood"[i]
		}
		if !good {
			return Tuple{Pointer{}, ex.freshError("x509: failed to parse EC private key")}, true
		}
		ex.cellSeq++
		return Tuple{Pointer{C: &Cell{ID: ex.cellSeq, V: &Opaque{Kind: "ecdsa.PrivateKey", Data: 98}}}, Iface{}}, true
	}
	for _, n := range []string{"MarshalPrivateKey", "MarshalPublicKey"} {
		m[signedPkg+"."+n] = func(ex *Exec, fn *ssa.Function, args []Value) (Value, bool) {
			return Tuple{ex.makeSlice(byteType, 4, 4), Iface{}}, true
		}
	}
	m["(*encoding/base64.Encoding).EncodeToString"] = func(ex *Exec, fn *ssa.Function, args []Value) (Value, bool) {
		return "dnA=", true
	}
}

func registerBinaryModels(P *Program) {
	m := P.models
	// little-endian 64-bit put/get as an inverse pair: the value written is remembered for the
	// first byte cell, and read back as long as the eight cells still hold the bytes written
	put := func(ex *Exec, fn *ssa.Function, args []Value) (Value, bool) {
		b := args[len(args)-2].(Slice)
		v := term(args[len(args)-1])
		if b.Len < 8 {
			ex.goPanic("index out of range (PutUint64)")
		}
		var bs [8]*smt.Term
		for k := 0; k < 8; k++ {
			bs[k] = smt.Mod(smt.Div(v, smt.Pow2(uint(8*k))), smt.I64(256))
			if k == 0 {
				ex.noteAccess(b.A.E[b.Off], true) // (scheduler: one scheduling point for the eight bytes)
			}
			b.A.E[b.Off+k].V = bs[k]
		}
		ex.u64[b.A.E[b.Off]] = u64tag{v, bs}
		return nil, true
	}
	get := func(ex *Exec, fn *ssa.Function, args []Value) (Value, bool) {
		b := args[len(args)-1].(Slice)
		if b.Len < 8 {
			ex.goPanic("index out of range (Uint64)")
		}
		ex.noteAccess(b.A.E[b.Off], false)
		if t, ok := ex.u64[b.A.E[b.Off]]; ok {
			same := true
			for k := 0; k < 8; k++ {
				if b.A.E[b.Off+k].V != Value(t.bytes[k]) {
					same = false
				}
			}
			if same {
				return t.v, true
			}
		}
		// the eight bytes of one 64-bit value, wherever they were copied to
		if b0, ok := b.A.E[b.Off].V.(*smt.Term); ok && b0.Op == smt.OMod && len(b0.Args) == 2 {
			v := b0.Args[0]
			if v.Lo != nil && v.Lo.Sign() >= 0 && v.Hi != nil && v.Hi.BitLen() <= 64 {
				same := true
				for k := 0; k < 8; k++ {
					if b.A.E[b.Off+k].V != Value(smt.Mod(smt.Div(v, smt.Pow2(uint(8*k))), smt.I64(256))) {
						same = false
					}
				}
				if same {
					return v, true
				}
			}
		}
		r := smt.I64(0)
		for k := 0; k < 8; k++ {
			r = smt.Add(r, smt.Mul(term(ex.load(b.A.E[b.Off+k])), smt.Pow2(uint(8*k))))
		}
		return r, true
	}
	m["(encoding/binary.littleEndian).PutUint64"] = put
	m["(encoding/binary.littleEndian).Uint64"] = get
}

type u64tag struct {
	v     *smt.Term
	bytes [8]*smt.Term
}

func registerFsModels(P *Program) {
	m := P.models
	const (
		oCREATE = 0x40
		oEXCL   = 0x80
		oTRUNC  = 0x200
	)
	m["os.OpenFile"] = func(ex *Exec, fn *ssa.Function, args []Value) (Value, bool) {
		name, ok := args[0].(string)
		flag, ok2 := term(args[1]).ConstInt64()
		if !ok || !ok2 {
			ex.unsupported("os.OpenFile with symbolic name or flags")
		}
		perm := term(args[2])
		f := ex.fsGet(name)
		ex.stubs["POSIX model of os.OpenFile/Chmod/Write/Close: O_EXCL fails on an existing file; a created file gets perm &^ umask; an existing file keeps its mode; fchmod sets the mode"] = true
		if ex.branch(f.Exists) {
			if flag&oCREATE != 0 && flag&oEXCL != 0 {
				return Tuple{Pointer{}, ex.freshError("file exists")}, true
			}
			if flag&oTRUNC != 0 {
				f.HasData = smt.False
			}
		} else {
			if flag&oCREATE == 0 {
				return Tuple{Pointer{}, ex.freshError("no such file")}, true
			}
			f.Exists = smt.True
			f.HasData = smt.False
			f.Created = true
			k := intKind{false, 9}
			f.Mode = ex.bitwise(token.AND_NOT, smt.Mod(perm, smt.I64(512)), ex.umask(), k)
		}
		ex.cellSeq++
		return Tuple{Pointer{C: &Cell{ID: ex.cellSeq, V: &Opaque{Kind: "os.File", Data: name}}}, Iface{}}, true
	}
	fileOf := func(ex *Exec, v Value) *fsFile {
		p, ok := v.(Pointer)
		if !ok || p.C == nil {
			ex.goPanic("nil *os.File")
		}
		o, ok := p.C.V.(*Opaque)
		if !ok || o.Kind != "os.File" {
			ex.unsupported("method on unknown *os.File")
		}
		return ex.fsGet(o.Data.(string))
	}
	m["(*os.File).Chmod"] = func(ex *Exec, fn *ssa.Function, args []Value) (Value, bool) {
		f := fileOf(ex, args[0])
		// fchmod may fail on a pre-existing file (e.g. it belongs to another user)
		if !f.Created && ex.branch(smt.Var(ex.fresh("chmodFails"), smt.Bool, nil, nil)) {
			return ex.freshError("chmod"), true
		}
		f.Mode = smt.Mod(term(args[1]), smt.I64(512))
		return Iface{}, true
	}
	m["(*os.File).Write"] = func(ex *Exec, fn *ssa.Function, args []Value) (Value, bool) {
		f := fileOf(ex, args[0])
		f.HasData = smt.True
		return Tuple{smt.I64(int64(args[1].(Slice).Len)), Iface{}}, true
	}
	m["(*os.File).Close"] = func(ex *Exec, fn *ssa.Function, args []Value) (Value, bool) {
		fileOf(ex, args[0])
		return Iface{}, true
	}
	// Lstat/Stat: the FileInfo is a *os.fileStat whose only modelled method is Mode()
	statModel := func(follow bool) ModelFn {
		return func(ex *Exec, fn *ssa.Function, args []Value) (Value, bool) {
			name, ok := args[0].(string)
			if !ok {
				ex.unsupported("os.Stat/Lstat with symbolic name")
			}
			f := ex.fsGet(name)
			if !ex.branch(f.Exists) {
				return Tuple{Iface{}, ex.freshError("no such file")}, true
			}
			mode := f.Mode
			if !follow && ex.branch(f.Link) {
				mode = smt.I64(int64(fs.ModeSymlink | 0o777))
			}
			ex.stubs["POSIX model of os.Stat/Lstat: Lstat of a symbolic link reports ModeSymlink|0777, everything else the permission bits of a regular file; open/fchmod follow links"] = true
			osPkg := ex.P.Prog.ImportedPackage("os")
			if osPkg == nil || osPkg.Type("fileStat") == nil {
				ex.unsupported("os.fileStat not found")
			}
			ex.cellSeq++
			return Tuple{Iface{T: types.NewPointer(osPkg.Type("fileStat").Type()), V: Pointer{C: &Cell{ID: ex.cellSeq, V: &Opaque{Kind: "os.fileStat", Data: mode}}}}, Iface{}}, true
		}
	}
	m["os.Lstat"] = statModel(false)
	m["os.Stat"] = statModel(true)
	m["(*os.fileStat).Mode"] = func(ex *Exec, fn *ssa.Function, args []Value) (Value, bool) {
		return args[0].(Pointer).C.V.(*Opaque).Data.(*smt.Term), true
	}
	m["os.Open"] = func(ex *Exec, fn *ssa.Function, args []Value) (Value, bool) {
		name, ok := args[0].(string)
		if !ok {
			ex.unsupported("os.Open with symbolic name")
		}
		if _, ok := ex.fileContent[name]; !ok {
			return Tuple{Pointer{}, ex.freshError("no such file")}, true
		}
		ex.cellSeq++
		return Tuple{Pointer{C: &Cell{ID: ex.cellSeq, V: &Opaque{Kind: "os.File", Data: name}}}, Iface{}}, true
	}
	m["io.ReadAll"] = func(ex *Exec, fn *ssa.Function, args []Value) (Value, bool) {
		i := args[0].(Iface)
		p, _ := i.V.(Pointer)
		if p.C == nil {
			ex.goPanic("io.ReadAll on nil reader")
		}
		o, ok := p.C.V.(*Opaque)
		if !ok || o.Kind != "os.File" {
			ex.unsupported("io.ReadAll on %T", p.C.V)
		}
		content := ex.fileContent[o.Data.(string)]
		return Tuple{ex.convert(content, types.Typ[types.String], types.NewSlice(byteType)), Iface{}}, true
	}
	// xml.Unmarshal: the decoder is reflection-driven and not encoded. Documents produced by the
	// harness helper vpxKeyXML are tokens "VPKEYXML:<nbits>"; decoding one fills a PublicKey with
	// arbitrary values whose modulus has exactly nbits bits (no <n> element when nbits is 0).
	m["encoding/xml.Unmarshal"] = func(ex *Exec, fn *ssa.Function, args []Value) (Value, bool) {
		data := args[0].(Slice)
		bs := make([]byte, data.Len)
		for i := range bs {
			c, ok := term(ex.load(data.A.E[data.Off+i])).ConstInt64()
			if !ok {
				ex.unsupported("xml.Unmarshal of symbolic bytes")
			}
			bs[i] = byte(c)
		}
		doc := string(bs)
		dst := args[1].(Iface)
		so, ok := dst.V.(Pointer).C.V.(*StructObj)
		st, ok2 := dst.T.(*types.Pointer).Elem().Underlying().(*types.Struct)
		if !ok || !ok2 {
			ex.unsupported("xml.Unmarshal into %s", dst.T)
		}
		ex.stubs["encoding/xml.Unmarshal is a stub: it fills the key struct with arbitrary values (modulus of the requested bit length, or none; missing elements stay nil; gabi's big integer decoding refuses negative numbers, the base list decoder does not)"] = true
		if strings.HasPrefix(doc, "VPSKXML:") {
			// private key document: the toy safe primes 23 = 2*11+1 and 47 = 2*23+1, minus the element named by the flaw
			missing, _ := strconv.Atoi(strings.TrimPrefix(doc, "VPSKXML:"))
			vals := map[string]int64{"P": 23, "Q": 47, "PPrime": 11, "QPrime": 23}
			skip := map[int]string{1: "P", 2: "Q", 3: "PPrime", 4: "QPrime"}[missing]
			for i := 0; i < st.NumFields(); i++ {
				if v, ok := vals[st.Field(i).Name()]; ok && st.Field(i).Name() != skip {
					so.F[i].V = ex.newBig(bigConst(v))
				}
				// 5: an <ECDSA> element holding (the base64 text of) a well-formed key, 6: a garbled one
				if st.Field(i).Name() == "ECDSAString" && missing == 5 {
					so.F[i].V = "dnBnb29k"
				}
				if st.Field(i).Name() == "ECDSAString" && missing == 6 {
					so.F[i].V = "!!garbage"
				}
			}
			return Iface{}, true
		}
		if !strings.HasPrefix(doc, "VPKEYXML:") {
			return ex.freshError("xml: syntax error"), true
		}
		parts := strings.Split(strings.TrimPrefix(doc, "VPKEYXML:"), ":")
		nbits, _ := strconv.Atoi(parts[0])
		flaw := 0
		if len(parts) > 1 {
			flaw, _ = strconv.Atoi(parts[1])
		}
		// flaws: 1 no <Z>, 2 no <S>, 3 no <Bases>, 4 a negative base, 5 a negative Z (refused by the integer decoder)
		if flaw == 5 {
			return ex.freshError("xml: negative number"), true
		}
		for i := 0; i < st.NumFields(); i++ {
			switch st.Field(i).Name() {
			case "N":
				if nbits > 0 {
					lo := smt.Pow2Big(uint(nbits - 1))
					hi := new(big.Int).Sub(smt.Pow2Big(uint(nbits)), big.NewInt(1))
					n := ex.fresh("xmlN")
					ex.noteVar(n)
					so.F[i].V = ex.newBig(BigVal{I: smt.Var(n, smt.Int, lo, hi)})
				}
			case "Z", "S":
				if (st.Field(i).Name() == "Z" && flaw == 1) || (st.Field(i).Name() == "S" && flaw == 2) {
					continue
				}
				so.F[i].V = ex.newBig(BigVal{I: ex.freshInt("xml"+st.Field(i).Name(), big.NewInt(1), nil)})
			case "R":
				if flaw == 3 {
					continue
				}
				// the base list is decoded by the repo's own (*Bases).UnmarshalXML: run it, with the generic
				// element decoder it calls replaced by a model that delivers the element texts
				texts := []string{"3", "9"}
				if flaw == 4 {
					texts = []string{"3", "-9"}
				}
				if flaw == 6 { // no flaw: a key with twelve bases 3, 4, ..., 14
					texts = nil
					for k := 0; k < 12; k++ {
						texts = append(texts, strconv.Itoa(3+k))
					}
				}
				var um *ssa.Function
				if pkg := ex.P.Prog.ImportedPackage(TargetModule + "/gabikeys"); pkg != nil {
					if named := pkg.Type("Bases"); named != nil {
						um = ex.P.Prog.LookupMethod(types.NewPointer(named.Type()), pkg.Pkg, "UnmarshalXML")
					}
				}
				if um == nil {
					ex.unsupported("gabikeys.(*Bases).UnmarshalXML not found")
				}
				ex.xmlElementTexts = texts
				ret := ex.callFunction(um, []Value{Pointer{C: so.F[i]}, Pointer{}, ex.zero(um.Signature.Params().At(1).Type())})
				if e, isIface := ret.(Iface); isIface && e.T != nil {
					return ret, true // the decoder passes the error on
				}
			}
		}
		return Iface{}, true
	}
	// (*xml.Decoder).DecodeElement as called by (*Bases).UnmarshalXML: fills the auxiliary xmlBases struct
	// (attribute num, one element per base with its inner text) from the texts set by the xml.Unmarshal stub
	m["(*encoding/xml.Decoder).DecodeElement"] = func(ex *Exec, fn *ssa.Function, args []Value) (Value, bool) {
		dst, ok := args[1].(Iface)
		if !ok || ex.xmlElementTexts == nil {
			ex.unsupported("xml.Decoder.DecodeElement outside the key stub")
		}
		so, ok1 := dst.V.(Pointer).C.V.(*StructObj)
		st, ok2 := dst.T.(*types.Pointer).Elem().Underlying().(*types.Struct)
		if !ok1 || !ok2 {
			ex.unsupported("DecodeElement into %s", dst.T)
		}
		for i := 0; i < st.NumFields(); i++ {
			switch st.Field(i).Name() {
			case "Num":
				so.F[i].V = smt.I64(int64(len(ex.xmlElementTexts)))
			case "Bases":
				pt := st.Field(i).Type().Underlying().(*types.Slice).Elem()
				et := pt.(*types.Pointer).Elem()
				est := et.Underlying().(*types.Struct)
				sl := ex.makeSlice(pt, len(ex.xmlElementTexts), len(ex.xmlElementTexts))
				for k, txt := range ex.xmlElementTexts {
					c := ex.alloc(et)
					for j := 0; j < est.NumFields(); j++ {
						switch est.Field(j).Name() {
						case "Bigint":
							c.V.(*StructObj).F[j].V = txt
						case "XMLName":
							// the element name Base_<k>; xml.Name{Space, Local}
							if nm, ok := c.V.(*StructObj).F[j].V.(*StructObj); ok && len(nm.F) == 2 {
								nm.F[1].V = "Base_" + strconv.Itoa(k)
							}
						}
					}
					sl.A.E[k].V = Pointer{C: c}
				}
				so.F[i].V = sl
			}
		}
		ex.xmlElementTexts = nil
		return Iface{}, true
	}
	m["encoding/xml.MarshalIndent"] = func(ex *Exec, fn *ssa.Function, args []Value) (Value, bool) {
		sl := ex.makeSlice(byteType, 8, 8)
		return Tuple{sl, Iface{}}, true
	}
}

func (ex *Exec) umask() *smt.Term {
	if ex.umaskT == nil {
		ex.umaskT = smt.I64(0o022)
	}
	return ex.umaskT
}
