package sx

import (
	"fmt"
	"math/big"
	"os"
	"sort"
	"strings"

	"gabiverif/smt"
)

// ModInfo describes the role of a modulus term.
type ModInfo struct {
	Kind string // "group" (multiplicative group mod N / mod P) or "order"
	Name string
}

func (ex *Exec) modKind(t *smt.Term) string {
	if mi, ok := ex.modKinds[t.ID]; ok {
		return mi.Kind
	}
	return ""
}

func (ex *Exec) primModulus(name string, bits *smt.Term) Value {
	n, ok := bits.ConstInt64()
	if !ok {
		panic("vpModulus needs constant bit length")
	}
	lo := smt.Pow2Big(uint(n - 1))
	hi := new(big.Int).Sub(smt.Pow2Big(uint(n)), big.NewInt(1))
	N := smt.Var(name, smt.Int, lo, hi)
	ex.modKinds[N.ID] = &ModInfo{Kind: "group", Name: name}
	return ex.newBig(BigVal{I: N})
}

func (ex *Exec) primAtom(name string, nv Value) Value {
	nb, ok := bigOf(nv)
	if !ok {
		panic("vpAtom needs a modulus")
	}
	if ex.modKind(nb.I) != "group" {
		ex.modKinds[nb.I.ID] = &ModInfo{Kind: "group", Name: "mod"}
	}
	iv := smt.Var(name, smt.Int, big.NewInt(2), nb.I.Hi)
	ex.atoms[name] = true
	g := &GroupFacet{Mod: nb.I, Exps: map[string]*smt.Term{name: smt.RealC(big.NewRat(1, 1))}, Reduced: true}
	return ex.newBig(BigVal{I: iv, G: g})
}

func (ex *Exec) primOrder(name string, nv Value) Value {
	nb, _ := bigOf(nv)
	// order of the quadratic residues p'q' = (p-1)(q-1)/4: between N/8 and N/4 for a modulus of two primes of equal length
	lo, hi := big.NewInt(2), nb.I.Hi
	if nb.I.Lo != nil && nb.I.Lo.BitLen() > 16 {
		lo = new(big.Int).Rsh(nb.I.Lo, 3)
		hi = new(big.Int).Rsh(nb.I.Hi, 2)
	}
	o := smt.Var(name, smt.Int, lo, hi)
	ex.modKinds[o.ID] = &ModInfo{Kind: "order", Name: name}
	return ex.newBig(BigVal{I: o, E: smt.RealC(new(big.Rat))})
}

// primHalfOrder: the order (P-1)/2 of the quadratic residues modulo a safe prime P (keyproof's group)
func (ex *Exec) primHalfOrder(name string, nv Value) Value {
	nb, _ := bigOf(nv)
	var lo, hi *big.Int
	if nb.I.Lo != nil {
		lo = new(big.Int).Rsh(nb.I.Lo, 1)
	}
	if nb.I.Hi != nil {
		hi = new(big.Int).Rsh(nb.I.Hi, 1)
	}
	o := smt.Var(name, smt.Int, lo, hi)
	ex.assume(smt.Eq(smt.Add(smt.Mul(smt.I64(2), o), smt.I64(1)), nb.I))
	ex.modKinds[o.ID] = &ModInfo{Kind: "order", Name: name}
	return ex.newBig(BigVal{I: o, E: smt.RealC(new(big.Rat))})
}

var realZero = smt.RealC(new(big.Rat))
var realOne = smt.RealC(big.NewRat(1, 1))

func isRealZero(t *smt.Term) bool { return t == realZero }

// facetFor returns the group facet of b for modulus m, promoting plain
// integers to atoms.
// stripMultiples removes summands k*m (k an integer constant) from a sum: what is left is
// congruent to t modulo m.
func stripMultiples(t, m *smt.Term) *smt.Term {
	if t.Op != smt.OSum {
		return t
	}
	rest := smt.IntC(new(big.Int))
	if t.Rat != nil && t.Rat.Sign() != 0 {
		if !t.Rat.IsInt() {
			return t
		}
		rest = smt.IntC(new(big.Int).Set(t.Rat.Num()))
	}
	dropped := false
	for i, a := range t.Args {
		if a == m && t.Coef[i].IsInt() {
			dropped = true
			continue
		}
		if !t.Coef[i].IsInt() {
			return t
		}
		rest = smt.Add(rest, smt.Mul(smt.IntC(new(big.Int).Set(t.Coef[i].Num())), a))
	}
	if !dropped {
		return t
	}
	return rest
}

// congruentElement: the group element an integer is congruent to modulo m, if it is syntactically
// "group element + k*m" (another representative of the same residue class, as A + N).
func (ex *Exec) congruentElement(b BigVal, m *smt.Term) (*GroupFacet, bool) {
	if b.G != nil || ex.groupRev == nil {
		return nil, false
	}
	r := stripMultiples(b.I, m)
	if r == b.I {
		return nil, false
	}
	if g, ok := ex.groupRev[r.ID]; ok && g.Mod == m {
		return g, true
	}
	return nil, false
}

func (ex *Exec) facetFor(b BigVal, m *smt.Term) *GroupFacet {
	if b.G != nil && b.G.Mod == m {
		return b.G
	}
	if g, ok := ex.congruentElement(b, m); ok {
		return &GroupFacet{Mod: g.Mod, Exps: g.Exps, Reduced: false}
	}
	if v, ok := b.I.ConstInt(); ok && v.Cmp(big.NewInt(1)) == 0 {
		return &GroupFacet{Mod: m, Exps: map[string]*smt.Term{}, Reduced: true}
	}
	name := fmt.Sprintf("elem#%d", b.I.ID)
	if b.I.Op == smt.OVar {
		name = "elem:" + b.I.Name
	}
	ex.atoms[name] = true
	red := b.I.Lo != nil && b.I.Lo.Sign() >= 0 // reducedness unknown for plain ints; assume in range if non-negative bound known
	return &GroupFacet{Mod: m, Exps: map[string]*smt.Term{name: realOne}, Reduced: red}
}

func scaleFacet(g *GroupFacet, k *smt.Term) *GroupFacet {
	r := &GroupFacet{Mod: g.Mod, Exps: map[string]*smt.Term{}, Reduced: true}
	for a, e := range g.Exps {
		v := smt.Mul(e, k)
		if !isRealZero(v) {
			r.Exps[a] = v
		}
	}
	return r
}

func addFacets(a, b *GroupFacet) *GroupFacet {
	r := &GroupFacet{Mod: a.Mod, Exps: map[string]*smt.Term{}}
	for k, e := range a.Exps {
		r.Exps[k] = e
	}
	for k, e := range b.Exps {
		if o, ok := r.Exps[k]; ok {
			v := smt.Add(o, e)
			if isRealZero(v) {
				delete(r.Exps, k)
			} else {
				r.Exps[k] = v
			}
		} else {
			r.Exps[k] = e
		}
	}
	return r
}

func facetKey(g *GroupFacet) string {
	ks := make([]string, 0, len(g.Exps))
	for k := range g.Exps {
		ks = append(ks, k)
	}
	sort.Strings(ks)
	var sb strings.Builder
	fmt.Fprintf(&sb, "m%d|%v|", g.Mod.ID, g.Reduced)
	for _, k := range ks {
		fmt.Fprintf(&sb, "%s^%d,", k, g.Exps[k].ID)
	}
	return sb.String()
}

// groupIval returns the (opaque) integer value of a group element.
func (ex *Exec) groupIval(g *GroupFacet) *smt.Term {
	if len(g.Exps) == 0 && g.Reduced {
		return smt.I64(1)
	}
	k := facetKey(g)
	if t, ok := ex.groupIv[k]; ok {
		return t
	}
	var t *smt.Term
	if g.Reduced {
		t = ex.freshInt("grp", big.NewInt(1), g.Mod.Hi) // a unit: never 0
	} else {
		t = ex.freshInt("prod", big.NewInt(0), nil)
	}
	ex.groupIv[k] = t
	if ex.groupRev == nil {
		ex.groupRev = map[int]*GroupFacet{}
	}
	ex.groupRev[t.ID] = g
	return t
}

// productFacet: the group element a plain integer term stands for when it is, syntactically, a
// product of reduced values modulo m ((a mod m) * (b mod m) * ... mod m, nested or not, with
// factors that are themselves (v mod m) terms or values of known group elements). Each (v mod m)
// leaf is the same atom it is when it meets the algebra directly (facetFor), so a product computed
// on the integer side equals the product computed on the group side. ok = false: not of that form.
func (ex *Exec) productFacet(t *smt.Term, m *smt.Term, depth int) (*GroupFacet, bool) {
	if depth > 8 {
		return nil, false
	}
	if v, ok := t.ConstInt(); ok && v.Cmp(big.NewInt(1)) == 0 {
		return &GroupFacet{Mod: m, Exps: map[string]*smt.Term{}, Reduced: true}, true
	}
	if g, ok := ex.groupRev[t.ID]; ok && g.Mod == m {
		return g, true
	}
	if t.Op == smt.OMod && len(t.Args) == 2 && t.Args[1] == m {
		if in := t.Args[0]; in.Op == smt.OMul {
			r := &GroupFacet{Mod: m, Exps: map[string]*smt.Term{}, Reduced: true}
			for _, f := range in.Args {
				g, ok := ex.productFacet(f, m, depth+1)
				if !ok {
					return nil, false
				}
				r = addFacets(r, g)
			}
			r.Reduced = true
			return r, true
		}
		return ex.facetFor(BigVal{I: t}, m), true
	}
	return nil, false
}

func (ex *Exec) facetEq(a, b *GroupFacet) *smt.Term {
	r := smt.True
	for k, e := range a.Exps {
		o, ok := b.Exps[k]
		if !ok {
			o = realZero
		}
		r = smt.And(r, ex.termEq(e, o))
	}
	for k, o := range b.Exps {
		if _, ok := a.Exps[k]; !ok {
			r = smt.And(r, ex.termEq(realZero, o))
		}
	}
	return r
}

// termEq is equality of two numeric terms, using random-oracle genericity
// where it applies.
func (ex *Exec) termEq(x, y *smt.Term) *smt.Term {
	if x == y {
		return smt.True
	}
	if ex.Ob.Param("no_oracle_rule", 0) == 0 {
		if r := ex.genericZero(smt.Sub(x, y), 0); r != nil {
			// keep the arithmetic consistent with the genericity verdict
			if plain := smt.Eq(x, y); !plain.IsConst() && plain != r {
				ex.assume(smt.Eq(r, plain))
			}
			return r
		}
	}
	return smt.Eq(x, y)
}

// isRandomVar: a fresh uniform draw from a range of at least 2^64 values.
func isRandomVar(t *smt.Term) bool {
	if t.Op != smt.OVar || !(strings.HasPrefix(t.Name, "rand!") || strings.HasPrefix(t.Name, "prime!")) {
		return false
	}
	if t.Lo == nil || t.Hi == nil {
		return false
	}
	return new(big.Int).Sub(t.Hi, t.Lo).BitLen() > 64
}

func isHashVar(t *smt.Term) bool {
	return t.Op == smt.OVar && strings.HasPrefix(t.Name, "hash!")
}

func (ex *Exec) youngestVar(t *smt.Term, best **smt.Term, seen map[int]bool) {
	if seen[t.ID] {
		return
	}
	seen[t.ID] = true
	if t.Op == smt.OVar {
		if *best == nil || ex.birth[t.Name] > ex.birth[(*best).Name] {
			*best = t
		}
	}
	for _, a := range t.Args {
		ex.youngestVar(a, best, seen)
	}
}

func zeroTest(g *smt.Term) *smt.Term {
	if g.Sort == smt.Real {
		return smt.Eq(g, realZero)
	}
	return smt.Eq(g, smt.I64(0))
}

// genericZero decides d == 0 under the random-oracle genericity assumption:
// if the youngest variable of d is a hash output h (so every other variable
// was fixed before h was computed) and d is a polynomial in h, then d == 0
// holds only if every coefficient of h^k is zero - or h coincides, by equal
// inputs, with an earlier output of the same function. Returns nil if the
// rule does not apply.
func (ex *Exec) genericZero(d *smt.Term, depth int) *smt.Term {
	if depth > 6 {
		return nil
	}
	var h *smt.Term
	ex.youngestVar(d, &h, map[int]bool{})
	if h == nil || !(isHashVar(h) || isRandomVar(h)) || ex.birth[h.Name] == 0 {
		if os.Getenv("GSX_TRACE") != "" && depth == 0 {
			n := "<none>"
			if h != nil {
				n = h.Name
			}
			fmt.Fprintf(os.Stderr, "genericZero n/a: youngest=%s d=%s\n", n, d)
		}
		return nil
	}
	d = smt.Expand(d)
	if d.IsConst() {
		return smt.BoolC(d.Rat.Sign() == 0)
	}
	coefs, facs := smt.Monomials(d)
	groups := map[int]*smt.Term{}
	isH := func(f *smt.Term) bool { return f == h || (f.Op == smt.OToReal && f.Args[0] == h) }
	for i, fs := range facs {
		pow := 0
		var rest []*smt.Term
		for _, f := range fs {
			if isH(f) {
				pow++
				continue
			}
			if _, has := smt.VarsOf(f)[h.ID]; has {
				return nil // h occurs non-polynomially
			}
			rest = append(rest, f)
		}
		m := smt.FromMonomial(d.Sort, coefs[i], rest)
		if g, ok := groups[pow]; ok {
			groups[pow] = smt.Add(g, m)
		} else {
			groups[pow] = m
		}
	}
	if len(groups) == 1 {
		if _, only0 := groups[0]; only0 {
			return nil
		}
	}
	if isHashVar(h) {
		ex.stubs["random oracle genericity: a polynomial relation in a hash output whose other variables were fixed before the hash was computed holds only if all its coefficients vanish (or the output coincides, by equal inputs, with an earlier output)"] = true
	} else {
		ex.stubs["randomness genericity: a polynomial relation in a fresh uniform draw (range >= 2^64) whose other variables were fixed before the draw holds only if all its coefficients vanish (fails with probability <= degree/2^64)"] = true
	}
	alt := smt.False
	var app *HashApp
	for _, a := range ex.hashes {
		if a.Out != nil && a.Out == h {
			app = a
		}
	}
	if app != nil {
		for _, o := range ex.hashes {
			if o == app || o.Out == nil || o.Kind != app.Kind || len(o.Args) != len(app.Args) || ex.birth[o.Out.Name] >= ex.birth[h.Name] {
				continue
			}
			same := ex.hashArgsEq(app, o)
			if same.IsFalse() {
				continue
			}
			sub := smt.Subst(d, h, o.Out)
			var z *smt.Term
			if sub.IsConst() {
				z = smt.BoolC(sub.Rat.Sign() == 0)
			} else if g := ex.genericZero(sub, depth+1); g != nil {
				z = g
			} else {
				z = zeroTest(sub)
			}
			alt = smt.Or(alt, smt.And(same, z))
		}
	}
	r := smt.True
	for _, g := range groups {
		if g.IsConst() {
			if g.Rat.Sign() != 0 {
				r = smt.False
				break
			}
			continue
		}
		if sub := ex.genericZero(g, depth+1); sub != nil {
			r = smt.And(r, sub)
		} else {
			r = smt.And(r, zeroTest(g))
		}
	}
	return smt.Or(r, alt)
}

// bigEq is the equality of two big integers, aware of group meanings.
func (ex *Exec) bigEq(a, b BigVal) *smt.Term {
	a, b = ex.promoteReduced(a, b), ex.promoteReduced(b, a)
	if a.G != nil && b.G != nil && a.G.Mod == b.G.Mod && a.G.Reduced && b.G.Reduced {
		eq := ex.facetEq(a.G, b.G)
		// keep the opaque integer images consistent
		if !eq.IsConst() || a.I != b.I {
			ex.assume(smt.Eq(eq, smt.Eq(a.I, b.I)))
		}
		return eq
	}
	if a.G != nil && b.G != nil && a.G.Mod != b.G.Mod && a.G.Reduced && b.G.Reduced && (len(a.G.Exps) > 0 || len(b.G.Exps) > 0) {
		ex.stubs["assume: group elements computed modulo different moduli never coincide"] = true
		return smt.False
	}
	// a reduced group element against the constant 1
	if a.G != nil && a.G.Reduced {
		if v, ok := b.I.ConstInt(); ok && v.Cmp(big.NewInt(1)) == 0 {
			return ex.bigEq(a, BigVal{I: b.I, G: &GroupFacet{Mod: a.G.Mod, Exps: map[string]*smt.Term{}, Reduced: true}})
		}
	}
	if b.G != nil && b.G.Reduced {
		if v, ok := a.I.ConstInt(); ok && v.Cmp(big.NewInt(1)) == 0 {
			return ex.bigEq(b, a)
		}
	}
	return ex.termEq(a.I, b.I)
}

// ---------- hashes ----------

type HashApp struct {
	Kind  string
	Args  []BigVal
	Out   *smt.Term   // integer output (nil for byte-wise hashes)
	Bytes []*smt.Term // output bytes (byte-wise hashes)
}

func (ex *Exec) hashApply(kind string, args []BigVal, bits uint) *smt.Term {
	// functional consistency for syntactically identical applications
	for _, h := range ex.hashes {
		if h.Kind != kind || len(h.Args) != len(args) || h.Out == nil {
			continue
		}
		same := true
		for i := range args {
			if h.Args[i].I != args[i].I {
				same = false
				break
			}
			if (h.Args[i].G == nil) != (args[i].G == nil) || (args[i].G != nil && facetKey(h.Args[i].G) != facetKey(args[i].G)) {
				same = false
				break
			}
		}
		if same {
			return h.Out
		}
	}
	out := ex.freshInt("hash", big.NewInt(0), new(big.Int).Sub(smt.Pow2Big(bits), big.NewInt(1)))
	ex.hashes = append(ex.hashes, &HashApp{Kind: kind, Args: args, Out: out})
	ex.hashAx = nil
	return out
}

func (ex *Exec) hashArgsEq(a, b *HashApp) *smt.Term {
	if a.Kind != b.Kind || len(a.Args) != len(b.Args) {
		return smt.False
	}
	eq := smt.True
	for k := range a.Args {
		eq = smt.And(eq, ex.bigEq(a.Args[k], b.Args[k]))
		if eq.IsFalse() {
			break
		}
	}
	return eq
}

// hashAxioms: collision resistance, functionality and unpredictability over
// the hash applications on this path.
func (ex *Exec) hashAxioms() []*smt.Term {
	if len(ex.hashes) == 0 {
		return nil
	}
	// pairwise functionality / collision resistance: recomputed only when a hash is added
	if ex.hashPairN != len(ex.hashes) {
		for j := ex.hashPairN; j < len(ex.hashes); j++ {
			for i := 0; i < j; i++ {
				a, b := ex.hashes[i], ex.hashes[j]
				if (a.Out == nil) != (b.Out == nil) {
					continue
				}
				var outEq *smt.Term
				if a.Out != nil {
					outEq = smt.Eq(a.Out, b.Out)
				} else {
					outEq = smt.True
					for k := range a.Bytes {
						outEq = smt.And(outEq, smt.Eq(a.Bytes[k], b.Bytes[k]))
					}
				}
				if a.Kind != b.Kind || len(a.Args) != len(b.Args) {
					ex.hashPairAx = append(ex.hashPairAx, smt.Not(outEq))
					continue
				}
				ex.hashPairAx = append(ex.hashPairAx, smt.Eq(ex.hashArgsEq(a, b), outEq))
			}
		}
		ex.hashPairN = len(ex.hashes)
		ex.hashAx = nil
	}
	if ex.hashAx != nil && ex.hashAxPc == len(ex.pc) {
		return ex.hashAx
	}
	out := append([]*smt.Term{}, ex.hashPairAx...)
	// random oracle: an output never equals a variable that was fixed before it was computed
	if ex.Ob.Param("no_oracle_rule", 0) == 0 {
		var walk func(t *smt.Term)
		walk = func(t *smt.Term) {
			if ex.oracleSeen[t.ID] {
				return
			}
			ex.oracleSeen[t.ID] = true
			if t.Op == smt.OVar && t.Sort == smt.Int && !isHashVar(t) && !strings.Contains(t.Name, "!") && !ex.atoms[t.Name] && ex.modKinds[t.ID] == nil {
				if t.Hi == nil || t.Hi.BitLen() > 64 {
					ex.oracleVars = append(ex.oracleVars, t)
				}
			}
			for _, a := range t.Args {
				walk(a)
			}
		}
		for _, c := range ex.pc[ex.oraclePcN:] {
			walk(c)
		}
		ex.oraclePcN = len(ex.pc)
		for _, h := range ex.hashes {
			if h.Out == nil {
				continue
			}
			hb := ex.birth[h.Out.Name]
			for _, v := range ex.oracleVars {
				if b := ex.birth[v.Name]; b > 0 && b < hb {
					out = append(out, smt.Ne(h.Out, v))
				}
			}
		}
	}
	ex.hashAx = out
	ex.hashAxPc = len(ex.pc)
	return ex.hashAx
}
