package sx

import (
	"fmt"
	"math/big"
	"sort"
	"strings"

	"gabiverif/smt"
)

// ModInfo describes the role of a modulus term.
type ModInfo struct {
	Kind string // "group" (multiplicative group mod N / mod P) or "order"
	Name string
}

func (ex *Exec) modKind(t *smt.Term) string {
	if mi, ok := ex.modKinds[t.ID]; ok {
		return mi.Kind
	}
	return ""
}

func (ex *Exec) primModulus(name string, bits *smt.Term) Value {
	n, ok := bits.ConstInt64()
	if !ok {
		panic("vpModulus needs constant bit length")
	}
	lo := smt.Pow2Big(uint(n - 1))
	hi := new(big.Int).Sub(smt.Pow2Big(uint(n)), big.NewInt(1))
	N := smt.Var(name, smt.Int, lo, hi)
	ex.modKinds[N.ID] = &ModInfo{Kind: "group", Name: name}
	return ex.newBig(BigVal{I: N})
}

func (ex *Exec) primAtom(name string, nv Value) Value {
	nb, ok := bigOf(nv)
	if !ok {
		panic("vpAtom needs a modulus")
	}
	if ex.modKind(nb.I) != "group" {
		ex.modKinds[nb.I.ID] = &ModInfo{Kind: "group", Name: "mod"}
	}
	iv := smt.Var(name, smt.Int, big.NewInt(2), nb.I.Hi)
	ex.assume(smt.Lt(iv, nb.I))
	ex.atoms[name] = true
	g := &GroupFacet{Mod: nb.I, Exps: map[string]*smt.Term{name: smt.RealC(big.NewRat(1, 1))}, Reduced: true}
	return ex.newBig(BigVal{I: iv, G: g})
}

func (ex *Exec) primOrder(name string, nv Value) Value {
	nb, _ := bigOf(nv)
	o := smt.Var(name, smt.Int, big.NewInt(2), nb.I.Hi)
	ex.modKinds[o.ID] = &ModInfo{Kind: "order", Name: name}
	return ex.newBig(BigVal{I: o, E: smt.RealC(new(big.Rat))})
}

var realZero = smt.RealC(new(big.Rat))
var realOne = smt.RealC(big.NewRat(1, 1))

func isRealZero(t *smt.Term) bool { return t == realZero }

// facetFor returns the group facet of b for modulus m, promoting plain
// integers to atoms.
func (ex *Exec) facetFor(b BigVal, m *smt.Term) *GroupFacet {
	if b.G != nil && b.G.Mod == m {
		return b.G
	}
	if v, ok := b.I.ConstInt(); ok && v.Cmp(big.NewInt(1)) == 0 {
		return &GroupFacet{Mod: m, Exps: map[string]*smt.Term{}, Reduced: true}
	}
	name := fmt.Sprintf("elem#%d", b.I.ID)
	if b.I.Op == smt.OVar {
		name = "elem:" + b.I.Name
	}
	ex.atoms[name] = true
	red := b.I.Lo != nil && b.I.Lo.Sign() >= 0 // reducedness unknown for plain ints; assume in range if non-negative bound known
	return &GroupFacet{Mod: m, Exps: map[string]*smt.Term{name: realOne}, Reduced: red}
}

func scaleFacet(g *GroupFacet, k *smt.Term) *GroupFacet {
	r := &GroupFacet{Mod: g.Mod, Exps: map[string]*smt.Term{}, Reduced: true}
	for a, e := range g.Exps {
		v := smt.Mul(e, k)
		if !isRealZero(v) {
			r.Exps[a] = v
		}
	}
	return r
}

func addFacets(a, b *GroupFacet) *GroupFacet {
	r := &GroupFacet{Mod: a.Mod, Exps: map[string]*smt.Term{}}
	for k, e := range a.Exps {
		r.Exps[k] = e
	}
	for k, e := range b.Exps {
		if o, ok := r.Exps[k]; ok {
			v := smt.Add(o, e)
			if isRealZero(v) {
				delete(r.Exps, k)
			} else {
				r.Exps[k] = v
			}
		} else {
			r.Exps[k] = e
		}
	}
	return r
}

func facetKey(g *GroupFacet) string {
	ks := make([]string, 0, len(g.Exps))
	for k := range g.Exps {
		ks = append(ks, k)
	}
	sort.Strings(ks)
	var sb strings.Builder
	fmt.Fprintf(&sb, "m%d|%v|", g.Mod.ID, g.Reduced)
	for _, k := range ks {
		fmt.Fprintf(&sb, "%s^%d,", k, g.Exps[k].ID)
	}
	return sb.String()
}

// groupIval returns the (opaque) integer value of a group element.
func (ex *Exec) groupIval(g *GroupFacet) *smt.Term {
	if len(g.Exps) == 0 && g.Reduced {
		return smt.I64(1)
	}
	k := facetKey(g)
	if t, ok := ex.groupIv[k]; ok {
		return t
	}
	var t *smt.Term
	if g.Reduced {
		t = ex.freshInt("grp", big.NewInt(0), g.Mod.Hi)
		ex.assume(smt.Lt(t, g.Mod))
	} else {
		t = ex.freshInt("prod", big.NewInt(0), nil)
	}
	ex.groupIv[k] = t
	return t
}

func facetEq(a, b *GroupFacet) *smt.Term {
	r := smt.True
	for k, e := range a.Exps {
		o, ok := b.Exps[k]
		if !ok {
			o = realZero
		}
		r = smt.And(r, smt.Eq(e, o))
	}
	for k, o := range b.Exps {
		if _, ok := a.Exps[k]; !ok {
			r = smt.And(r, smt.Eq(realZero, o))
		}
	}
	return r
}

// bigEq is the equality of two big integers, aware of group meanings.
func (ex *Exec) bigEq(a, b BigVal) *smt.Term {
	if a.G != nil && b.G != nil && a.G.Mod == b.G.Mod && a.G.Reduced && b.G.Reduced {
		eq := facetEq(a.G, b.G)
		// keep the opaque integer images consistent
		if !eq.IsConst() || a.I != b.I {
			ex.assume(smt.Eq(eq, smt.Eq(a.I, b.I)))
		}
		return eq
	}
	if a.G != nil && b.G != nil && a.G.Mod != b.G.Mod && a.G.Reduced && b.G.Reduced && (len(a.G.Exps) > 0 || len(b.G.Exps) > 0) {
		ex.stubs["assume: group elements computed modulo different moduli never coincide"] = true
		return smt.False
	}
	// a reduced group element against the constant 1
	if a.G != nil && a.G.Reduced {
		if v, ok := b.I.ConstInt(); ok && v.Cmp(big.NewInt(1)) == 0 {
			return ex.bigEq(a, BigVal{I: b.I, G: &GroupFacet{Mod: a.G.Mod, Exps: map[string]*smt.Term{}, Reduced: true}})
		}
	}
	if b.G != nil && b.G.Reduced {
		if v, ok := a.I.ConstInt(); ok && v.Cmp(big.NewInt(1)) == 0 {
			return ex.bigEq(b, a)
		}
	}
	return smt.Eq(a.I, b.I)
}

// ---------- hashes ----------

type HashApp struct {
	Kind string
	Args []BigVal
	Out  *smt.Term
}

func (ex *Exec) hashApply(kind string, args []BigVal, bits uint) *smt.Term {
	// functional consistency for syntactically identical applications
	for _, h := range ex.hashes {
		if h.Kind != kind || len(h.Args) != len(args) {
			continue
		}
		same := true
		for i := range args {
			if h.Args[i].I != args[i].I {
				same = false
				break
			}
			if (h.Args[i].G == nil) != (args[i].G == nil) || (args[i].G != nil && facetKey(h.Args[i].G) != facetKey(args[i].G)) {
				same = false
				break
			}
		}
		if same {
			return h.Out
		}
	}
	out := ex.freshInt("hash", big.NewInt(0), new(big.Int).Sub(smt.Pow2Big(bits), big.NewInt(1)))
	ex.hashes = append(ex.hashes, &HashApp{Kind: kind, Args: args, Out: out})
	ex.hashAx = nil
	return out
}

// hashAxioms: collision resistance + functionality over the applications on this path.
func (ex *Exec) hashAxioms() []*smt.Term {
	if ex.hashAx != nil || len(ex.hashes) < 2 {
		return ex.hashAx
	}
	var out []*smt.Term
	saved := ex.pc
	for i := 0; i < len(ex.hashes); i++ {
		for j := i + 1; j < len(ex.hashes); j++ {
			a, b := ex.hashes[i], ex.hashes[j]
			if a.Kind != b.Kind || len(a.Args) != len(b.Args) {
				out = append(out, smt.Ne(a.Out, b.Out))
				continue
			}
			eq := smt.True
			for k := range a.Args {
				eq = smt.And(eq, ex.bigEq(a.Args[k], b.Args[k]))
			}
			out = append(out, smt.Eq(eq, smt.Eq(a.Out, b.Out)))
		}
	}
	// bigEq may have appended consistency axioms to the pc; keep them
	_ = saved
	ex.hashAx = out
	if out == nil {
		ex.hashAx = []*smt.Term{}
	}
	return ex.hashAx
}
