package sx

import (
	"gabiverif/smt"

	"golang.org/x/tools/go/ssa"
)

type mergeAbort struct{ why string }

// mergedCall executes a side-effect-free callee on all of its paths and merges
// the results into one ite term instead of forking the caller's path
// ("summarise pure callees"). It returns ok=false if the callee cannot be
// merged (it panics on some path, writes to older heap cells, or returns
// values that are not terms); the caller then executes it normally.
func (ex *Exec) mergedCall(fn *ssa.Function, args []Value) (res Value, ok bool) {
	if ex.merging {
		return nil, false
	}
	savedDec, savedPos, savedTaken, savedAlts := ex.decisions, ex.dpos, ex.taken, ex.alts
	savedPc := len(ex.pc)
	savedDepth, savedCur := ex.depth, ex.curPos
	ex.merging = true
	ex.mergeCellMark = ex.cellSeq
	defer func() {
		ex.decisions, ex.dpos, ex.taken, ex.alts = savedDec, savedPos, savedTaken, savedAlts
		ex.pc = ex.pc[:savedPc]
		ex.depth, ex.curPos = savedDepth, savedCur
		ex.merging = false
	}()
	type outcome struct {
		cond *smt.Term
		val  *smt.Term
	}
	var outs []outcome
	work := [][]int{nil}
	for len(work) > 0 {
		pre := work[len(work)-1]
		work = work[:len(work)-1]
		if len(outs) > 512 {
			return nil, false
		}
		ex.decisions, ex.dpos, ex.taken, ex.alts = pre, 0, nil, nil
		ex.pc = ex.pc[:savedPc]
		ex.depth = savedDepth
		var val Value
		aborted := false
		func() {
			defer func() {
				if r := recover(); r != nil {
					switch r.(type) {
					case *pathEnd, mergeAbort:
						aborted = true
					default:
						panic(r)
					}
				}
			}()
			val = ex.interpret(fn, args)
		}()
		if aborted {
			return nil, false
		}
		t, isTerm := val.(*smt.Term)
		if !isTerm {
			return nil, false
		}
		outs = append(outs, outcome{smt.And(ex.pc[savedPc:]...), t})
		work = append(work, ex.alts...)
	}
	if len(outs) == 0 {
		return nil, false
	}
	r := outs[len(outs)-1].val
	for i := len(outs) - 2; i >= 0; i-- {
		r = smt.Ite(outs[i].cond, outs[i].val, r)
	}
	return r, true
}
