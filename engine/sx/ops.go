package sx

import (
	"fmt"
	"go/token"
	"go/types"
	"math/big"
	"strings"

	"gabiverif/smt"

	"golang.org/x/tools/go/ssa"
)

func (ex *Exec) binop(op token.Token, x, y Value, xt, rt types.Type) Value {
	switch a := x.(type) {
	case string:
		b := y.(string)
		switch op {
		case token.ADD:
			return a + b
		case token.EQL:
			return smt.BoolC(a == b)
		case token.NEQ:
			return smt.BoolC(a != b)
		case token.LSS:
			return smt.BoolC(a < b)
		case token.LEQ:
			return smt.BoolC(a <= b)
		case token.GTR:
			return smt.BoolC(a > b)
		case token.GEQ:
			return smt.BoolC(a >= b)
		}
	case float64:
		b := y.(float64)
		switch op {
		case token.ADD:
			return a + b
		case token.SUB:
			return a - b
		case token.MUL:
			return a * b
		case token.QUO:
			return a / b
		case token.EQL:
			return smt.BoolC(a == b)
		case token.NEQ:
			return smt.BoolC(a != b)
		case token.LSS:
			return smt.BoolC(a < b)
		case token.LEQ:
			return smt.BoolC(a <= b)
		case token.GTR:
			return smt.BoolC(a > b)
		case token.GEQ:
			return smt.BoolC(a >= b)
		}
	case *smt.Term:
		b, ok := y.(*smt.Term)
		if !ok {
			panic(fmt.Sprintf("binop %s: term vs %T", op, y))
		}
		if a.Sort == smt.Bool {
			switch op {
			case token.EQL:
				return smt.Eq(a, b)
			case token.NEQ:
				return smt.Not(smt.Eq(a, b))
			case token.AND, token.LAND:
				return smt.And(a, b)
			case token.OR, token.LOR:
				return smt.Or(a, b)
			}
			panic("bool binop " + op.String())
		}
		return ex.intBinop(op, a, b, xt, rt)
	}
	switch op {
	case token.EQL:
		return ex.valEq(x, y)
	case token.NEQ:
		return smt.Not(ex.valEq(x, y))
	}
	panic(fmt.Sprintf("binop %s on %T", op, x))
}

func (ex *Exec) intBinop(op token.Token, a, b *smt.Term, xt, rt types.Type) Value {
	k, isInt := intKindOf(xt)
	if !isInt {
		panic("int binop on " + xt.String())
	}
	switch op {
	case token.ADD:
		return k.wrap(smt.Add(a, b))
	case token.SUB:
		return k.wrap(smt.Sub(a, b))
	case token.MUL:
		return k.wrap(smt.Mul(a, b))
	case token.QUO, token.REM:
		ex.panicIf(smt.Eq(b, smt.I64(0)), "integer divide by zero")
		var q *smt.Term
		if !k.signed || (a.Lo != nil && a.Lo.Sign() >= 0 && b.Lo != nil && b.Lo.Sign() > 0) {
			q = smt.Div(a, b)
		} else {
			// truncated division built from euclidean division
			absa, absb := smt.Abs(a), smt.Abs(b)
			qq := smt.Div(absa, absb)
			sameSign := smt.Eq(smt.Ge(a, smt.I64(0)), smt.Ge(b, smt.I64(0)))
			q = smt.Ite(sameSign, qq, smt.Neg(qq))
		}
		if op == token.QUO {
			return k.wrap(q)
		}
		return k.wrap(smt.Sub(a, smt.Mul(b, q)))
	case token.EQL:
		return smt.Eq(a, b)
	case token.NEQ:
		return smt.Ne(a, b)
	case token.LSS:
		return smt.Lt(a, b)
	case token.LEQ:
		return smt.Le(a, b)
	case token.GTR:
		return smt.Gt(a, b)
	case token.GEQ:
		return smt.Ge(a, b)
	case token.SHL, token.SHR:
		// shift count: unsigned or non-negative
		ex.panicIf(smt.Lt(b, smt.I64(0)), "negative shift amount")
		var n int
		if v, ok := b.ConstInt64(); ok {
			n = int(v)
		} else {
			// fork over 0..bits (anything >= bits behaves like bits)
			conds := make([]*smt.Term, k.bits+1)
			for i := 0; i < int(k.bits); i++ {
				conds[i] = smt.Eq(b, smt.I64(int64(i)))
			}
			conds[k.bits] = smt.Ge(b, smt.I64(int64(k.bits)))
			n = ex.choose(conds)
		}
		if n > int(k.bits) {
			n = int(k.bits)
		}
		if op == token.SHL {
			return k.wrap(smt.Mul(a, smt.Pow2(uint(n))))
		}
		return smt.Div(a, smt.Pow2(uint(n)))
	case token.AND, token.OR, token.XOR, token.AND_NOT:
		return k.wrap(ex.bitwise(op, a, b, k))
	}
	panic("int binop " + op.String())
}

// pow2Divisor: the largest k (capped at 4096) such that t is syntactically a multiple of 2^k.
func pow2Divisor(t *smt.Term) uint {
	tz := func(r *big.Rat) uint {
		if !r.IsInt() {
			return 0
		}
		if r.Sign() == 0 {
			return 4096
		}
		return r.Num().TrailingZeroBits()
	}
	switch t.Op {
	case smt.OConst:
		return tz(t.Rat)
	case smt.OSum:
		k := tz(t.Rat)
		for i, a := range t.Args {
			if d := tz(t.Coef[i]) + pow2Divisor(a); d < k {
				k = d
			}
		}
		return k
	case smt.OIte:
		a, b := pow2Divisor(t.Args[1]), pow2Divisor(t.Args[2])
		if b < a {
			return b
		}
		return a
	}
	return 0
}

func isMask(v *big.Int) (uint, bool) {
	if v.Sign() <= 0 {
		return 0, false
	}
	p := new(big.Int).Add(v, big.NewInt(1))
	if p.BitLen()-1 == int(p.TrailingZeroBits()) {
		return uint(p.BitLen() - 1), true
	}
	return 0, false
}

func (ex *Exec) bitwise(op token.Token, a, b *smt.Term, k intKind) *smt.Term {
	av, aok := a.ConstInt()
	bv, bok := b.ConstInt()
	if aok && bok {
		// compute on two's complement representation
		mod := smt.Pow2Big(k.bits)
		ua := new(big.Int).Mod(av, mod)
		ub := new(big.Int).Mod(bv, mod)
		r := new(big.Int)
		switch op {
		case token.AND:
			r.And(ua, ub)
		case token.OR:
			r.Or(ua, ub)
		case token.XOR:
			r.Xor(ua, ub)
		case token.AND_NOT:
			r.AndNot(ua, ub)
		}
		return smt.IntC(r)
	}
	if op == token.AND {
		if aok && !bok {
			a, b = b, a
			bv, bok = av, true
		}
		if bok {
			if bv.Sign() == 0 {
				return smt.I64(0)
			}
			if n, ok := isMask(bv); ok {
				return smt.Mod(a, smt.Pow2(n))
			}
		}
	}
	// operands with disjoint bit supports (a a multiple of 2^k, 0 <= b < 2^k), as in
	// x<<16 | y<<8 | z: or and xor are plain addition
	if op == token.OR || op == token.XOR {
		disjoint := func(hi, lo *smt.Term) bool {
			return lo.Lo != nil && lo.Lo.Sign() >= 0 && lo.Hi != nil && hi.Lo != nil && hi.Lo.Sign() >= 0 &&
				hi.Hi != nil && uint(hi.Hi.BitLen()) <= k.bits && pow2Divisor(hi) >= uint(lo.Hi.BitLen())
		}
		if disjoint(a, b) || disjoint(b, a) {
			return smt.Add(a, b)
		}
	}
	// general case: bit decomposition over the two's complement image
	width := k.bits
	bound := func(t *smt.Term) uint {
		if t.Lo != nil && t.Lo.Sign() >= 0 && t.Hi != nil {
			return uint(t.Hi.BitLen())
		}
		return width
	}
	wa, wb := bound(a), bound(b)
	w := wa
	if wb > w {
		w = wb
	}
	if op == token.AND && wa < wb {
		w = wa
	} else if op == token.AND && wb < wa {
		w = wb
	}
	ua := smt.Mod(a, smt.Pow2(width))
	ub := smt.Mod(b, smt.Pow2(width))
	bit := func(t *smt.Term, i uint) *smt.Term { return smt.Mod(smt.Div(t, smt.Pow2(i)), smt.I64(2)) }
	var parts []*smt.Term
	for i := uint(0); i < w; i++ {
		x, y := bit(ua, i), bit(ub, i)
		var r *smt.Term
		one, zero := smt.I64(1), smt.I64(0)
		xe, ye := smt.Eq(x, one), smt.Eq(y, one)
		switch op {
		case token.AND:
			r = smt.Ite(smt.And(xe, ye), one, zero)
		case token.OR:
			r = smt.Ite(smt.Or(xe, ye), one, zero)
		case token.XOR:
			r = smt.Ite(smt.Eq(xe, ye), zero, one)
		case token.AND_NOT:
			r = smt.Ite(smt.And(xe, smt.Not(ye)), one, zero)
		}
		parts = append(parts, smt.Mul(r, smt.Pow2(i)))
	}
	if len(parts) == 0 {
		return smt.I64(0)
	}
	return smt.Add(parts...)
}

// valEq compares two comparable non-numeric values.
func (ex *Exec) valEq(x, y Value) *smt.Term {
	switch a := x.(type) {
	case *smt.Term:
		return smt.Eq(a, y.(*smt.Term))
	case string:
		return smt.BoolC(a == y.(string))
	case float64:
		return smt.BoolC(a == y.(float64))
	case Pointer:
		b, ok := y.(Pointer)
		if !ok {
			return smt.False
		}
		return smt.BoolC(a.C == b.C)
	case *Map:
		b := y.(*Map)
		return smt.BoolC(a == b)
	case *Chan:
		return smt.BoolC(a == y.(*Chan))
	case *Closure:
		b := y.(*Closure)
		return smt.BoolC(a == b)
	case Slice:
		b := y.(Slice)
		if a.A == nil || b.A == nil {
			return smt.BoolC(a.A == nil && b.A == nil)
		}
		panic("slice comparison")
	case Iface:
		b := y.(Iface)
		if a.T == nil || b.T == nil {
			return smt.BoolC(a.T == nil && b.T == nil)
		}
		if !types.Identical(a.T, b.T) {
			return smt.False
		}
		return ex.valEq(a.V, b.V)
	case *Struct:
		b := y.(*Struct)
		r := smt.True
		for i := range a.F {
			r = smt.And(r, ex.valEq(a.F[i], b.F[i]))
		}
		return r
	case *Array:
		b := y.(*Array)
		r := smt.True
		for i := range a.E {
			r = smt.And(r, ex.valEq(a.E[i], b.E[i]))
		}
		return r
	case *Opaque:
		b, ok := y.(*Opaque)
		return smt.BoolC(ok && a == b)
	case nil:
		return smt.BoolC(y == nil)
	}
	panic(fmt.Sprintf("valEq on %T", x))
}

func (ex *Exec) convert(v Value, from, to types.Type) Value {
	fu, tu := from.Underlying(), to.Underlying()
	if tk, ok := intKindOf(to); ok {
		switch x := v.(type) {
		case *smt.Term:
			return tk.wrap(x)
		case float64:
			return smt.I64(int64(x))
		}
	}
	if tb, ok := tu.(*types.Basic); ok {
		if tb.Info()&types.IsString != 0 {
			switch x := v.(type) {
			case string:
				return x
			case Slice:
				bs := make([]byte, x.Len)
				for i := 0; i < x.Len; i++ {
					c, ok := term(x.A.E[x.Off+i].V).ConstInt64()
					if !ok {
						ex.unsupported("[]byte with symbolic content converted to string")
					}
					bs[i] = byte(c)
				}
				return string(bs)
			case *smt.Term:
				c, ok := x.ConstInt64()
				if !ok {
					ex.unsupported("symbolic rune to string")
				}
				return string(rune(c))
			}
		}
		if tb.Info()&types.IsFloat != 0 {
			switch x := v.(type) {
			case float64:
				return x
			case *smt.Term:
				c, ok := x.ConstInt64()
				if !ok {
					ex.unsupported("symbolic int to float")
				}
				return float64(c)
			}
		}
	}
	if ts, ok := tu.(*types.Slice); ok {
		if s, ok := v.(string); ok {
			if eb, ok := ts.Elem().Underlying().(*types.Basic); ok && eb.Kind() == types.Uint8 {
				sl := ex.makeSlice(ts.Elem(), len(s), len(s))
				for i := 0; i < len(s); i++ {
					sl.A.E[i].V = smt.I64(int64(s[i]))
				}
				return sl
			}
		}
		if _, ok := fu.(*types.Slice); ok {
			return v
		}
	}
	if tp, ok := tu.(*types.Pointer); ok {
		// unsafe.Pointer(&structValue) -> *scalar: the address of a struct is the address of its first
		// field of non-zero size (used by harnesses to reach a counter whether it is a plain uint64 or a
		// typed atomic)
		if p, isPtr := v.(Pointer); isPtr && p.C != nil {
			if _, scalar := tp.Elem().Underlying().(*types.Basic); scalar {
				c := p.C
				for {
					so, isStruct := c.V.(*StructObj)
					if !isStruct {
						break
					}
					var next *Cell
					for _, f := range so.F {
						if inner, empty := f.V.(*StructObj); empty && len(inner.F) == 0 {
							continue
						}
						next = f
						break
					}
					if next == nil {
						break
					}
					c = next
				}
				return Pointer{C: c}
			}
		}
		return v
	}
	if _, ok := tu.(*types.Basic); ok && tu.(*types.Basic).Kind() == types.UnsafePointer {
		return v
	}
	panic(fmt.Sprintf("convert %s -> %s (%T)", from, to, v))
}

// ---------- maps ----------

func (ex *Exec) keyEq(a, b Value) *smt.Term { return ex.valEq(a, b) }

// mapFind returns the entry matching k (forking on symbolic equality) or nil.
func (ex *Exec) mapFind(m *Map, k Value) *MapEntry {
	if m == nil {
		return nil
	}
	conds := make([]*smt.Term, 0, len(m.E)+1)
	none := smt.True
	for _, e := range m.E {
		c := ex.keyEq(k, e.K)
		conds = append(conds, c)
		none = smt.And(none, smt.Not(c))
	}
	// entries are pairwise distinct under the path condition; make the
	// alternatives exclusive anyway
	excl := make([]*smt.Term, 0, len(conds)+1)
	prev := smt.True
	for _, c := range conds {
		excl = append(excl, smt.And(prev, c))
		prev = smt.And(prev, smt.Not(c))
	}
	excl = append(excl, none)
	i := ex.choose(excl)
	if i == len(m.E) {
		return nil
	}
	return m.E[i]
}

func (ex *Exec) mapUpdate(mv, k, v Value) {
	m := mv.(*Map)
	if m == nil {
		ex.goPanic("assignment to entry in nil map")
	}
	if e := ex.mapFind(m, k); e != nil {
		ex.store(e.C, v)
		return
	}
	m.E = append(m.E, &MapEntry{K: k, C: ex.cellOf(v)})
}

func (ex *Exec) lookup(c, k Value, commaOk bool, rt types.Type) Value {
	switch m := c.(type) {
	case string:
		return ex.index(m, term(k))
	case *Map:
		e := ex.mapFind(m, k)
		var val Value
		if e != nil {
			val = ex.load(e.C)
		} else {
			vt := rt
			if commaOk {
				vt = rt.(*types.Tuple).At(0).Type()
			}
			val = ex.zero(vt)
		}
		if commaOk {
			return Tuple{val, smt.BoolC(e != nil)}
		}
		return val
	}
	panic(fmt.Sprintf("lookup on %T", c))
}

func (ex *Exec) mapDelete(m *Map, k Value) {
	if m == nil {
		return
	}
	e := ex.mapFind(m, k)
	if e == nil {
		return
	}
	for i, x := range m.E {
		if x == e {
			m.E = append(m.E[:i:i], m.E[i+1:]...)
			return
		}
	}
}

type rangeIter struct {
	m    *Map
	keys []*MapEntry
	s    string
	pos  int
}

func (ex *Exec) rangeInit(v Value) Value {
	switch x := v.(type) {
	case *Map:
		it := &rangeIter{m: x}
		if x != nil {
			it.keys = append(it.keys, x.E...)
		}
		return it
	case string:
		return &rangeIter{s: x}
	}
	panic(fmt.Sprintf("range over %T", v))
}

func (ex *Exec) rangeNext(it *rangeIter, x *ssa.Next) Value {
	if x.IsString {
		if it.pos >= len(it.s) {
			return Tuple{smt.False, smt.I64(0), smt.I64(0)}
		}
		// decode rune concretely
		r := []rune(it.s[it.pos:])[0]
		p := it.pos
		it.pos += len(string(r))
		return Tuple{smt.True, smt.I64(int64(p)), smt.I64(int64(r))}
	}
	tt := x.Type().(*types.Tuple)
	for it.pos < len(it.keys) {
		e := it.keys[it.pos]
		it.pos++
		// skip entries deleted during iteration
		alive := false
		for _, cur := range it.m.E {
			if cur == e {
				alive = true
			}
		}
		if !alive {
			continue
		}
		return Tuple{smt.True, e.K, ex.load(e.C)}
	}
	var zk, zv Value
	if tt.At(1).Type() != nil {
		zk = zeroOrNil(ex, tt.At(1).Type())
	}
	zv = zeroOrNil(ex, tt.At(2).Type())
	return Tuple{smt.False, zk, zv}
}

func zeroOrNil(ex *Exec, t types.Type) Value {
	if t == nil {
		return nil
	}
	if b, ok := t.(*types.Basic); ok && b.Kind() == types.Invalid {
		return nil
	}
	return ex.zero(t)
}

// ---------- calls ----------

func (ex *Exec) call(fr *frame, c *ssa.CallCommon) Value {
	args := make([]Value, 0, len(c.Args)+1)
	if c.IsInvoke() {
		recv := ex.get(fr, c.Value)
		for _, a := range c.Args {
			args = append(args, ex.get(fr, a))
		}
		return ex.invoke(recv, c.Method, args)
	}
	for _, a := range c.Args {
		args = append(args, ex.get(fr, a))
	}
	if b, ok := c.Value.(*ssa.Builtin); ok {
		return ex.builtin(b.Name(), args, c)
	}
	if fn, ok := c.Value.(*ssa.Function); ok {
		return ex.callFunction(fn, args)
	}
	return ex.callValue(ex.get(fr, c.Value), args)
}

func (ex *Exec) callValue(f Value, args []Value) Value {
	cl, ok := f.(*Closure)
	if !ok || cl == nil {
		ex.goPanic("call of nil function")
	}
	if cl.Ext != "" {
		if strings.HasPrefix(cl.Ext, "builtin:") {
			return ex.builtin(strings.TrimPrefix(cl.Ext, "builtin:"), args, nil)
		}
		ex.unsupported("call of external function value %s", cl.Ext)
	}
	if len(cl.Env) > 0 {
		args = append(append([]Value{}, args...), cl.Env...)
	}
	return ex.callFunction(cl.Fn, args)
}

func (ex *Exec) invoke(recv Value, method *types.Func, args []Value) Value {
	i, ok := recv.(Iface)
	if !ok {
		panic(fmt.Sprintf("invoke on %T", recv))
	}
	if i.T == nil {
		ex.goPanic("nil pointer dereference (method %s on nil interface)", method.Name())
	}
	if r, ok := ex.invokeModel(i, method, args); ok {
		return r
	}
	ms := ex.P.Prog.MethodSets.MethodSet(i.T)
	sel := ms.Lookup(method.Pkg(), method.Name())
	if sel == nil {
		panic(fmt.Sprintf("no method %s on %s", method.Name(), i.T))
	}
	fn := ex.P.Prog.MethodValue(sel)
	if fn == nil {
		ex.unsupported("abstract method %s on %s", method.Name(), i.T)
	}
	return ex.callFunction(fn, append([]Value{i.V}, args...))
}

func (ex *Exec) builtin(name string, args []Value, c *ssa.CallCommon) Value {
	switch name {
	case "len":
		switch x := args[0].(type) {
		case string:
			return smt.I64(int64(len(x)))
		case Slice:
			return smt.I64(int64(x.Len))
		case *Map:
			if x == nil {
				return smt.I64(0)
			}
			return smt.I64(int64(len(x.E)))
		case *Array:
			return smt.I64(int64(len(x.E)))
		case Pointer:
			return smt.I64(int64(len(x.C.V.(*ArrObj).E)))
		case *Chan:
			if x == nil {
				return smt.I64(0)
			}
			return smt.I64(int64(len(x.Buf)))
		}
	case "cap":
		switch x := args[0].(type) {
		case Slice:
			return smt.I64(int64(x.Cap))
		case *Array:
			return smt.I64(int64(len(x.E)))
		case *Chan:
			return smt.I64(int64(x.Cap))
		}
	case "append":
		s := args[0].(Slice)
		var add []Value
		switch t := args[1].(type) {
		case Slice:
			for i := 0; i < t.Len; i++ {
				add = append(add, ex.load(t.A.E[t.Off+i]))
			}
		case string:
			for i := 0; i < len(t); i++ {
				add = append(add, smt.I64(int64(t[i])))
			}
		}
		if len(add) == 0 {
			return s
		}
		if s.A != nil && s.Len+len(add) <= s.Cap {
			for i, v := range add {
				ex.store(s.A.E[s.Off+s.Len+i], v)
			}
			s.Len += len(add)
			return s
		}
		nc := s.Len + len(add)
		if nc < 2*s.Cap {
			nc = 2 * s.Cap
		}
		a := &ArrObj{E: make([]*Cell, nc)}
		for i := 0; i < s.Len; i++ {
			a.E[i] = ex.cellOf(ex.load(s.A.E[s.Off+i]))
		}
		for i, v := range add {
			a.E[s.Len+i] = ex.cellOf(v)
		}
		var elem types.Type
		if c != nil {
			elem = c.Args[0].Type().Underlying().(*types.Slice).Elem()
		}
		for i := s.Len + len(add); i < nc; i++ {
			if elem != nil {
				a.E[i] = ex.alloc(elem)
			} else {
				a.E[i] = ex.cellOf(add[0])
			}
		}
		return Slice{A: a, Len: s.Len + len(add), Cap: nc}
	case "copy":
		d := args[0].(Slice)
		n := d.Len
		switch s := args[1].(type) {
		case Slice:
			if s.Len < n {
				n = s.Len
			}
			if n > 0 {
				// (scheduler: one scheduling point per operand, on its first element)
				ex.noteAccess(s.A.E[s.Off], false)
				ex.noteAccess(d.A.E[d.Off], true)
			}
			vals := make([]Value, n)
			for i := 0; i < n; i++ {
				vals[i] = ex.load(s.A.E[s.Off+i])
			}
			for i := 0; i < n; i++ {
				ex.store(d.A.E[d.Off+i], vals[i])
			}
		case string:
			if len(s) < n {
				n = len(s)
			}
			for i := 0; i < n; i++ {
				ex.store(d.A.E[d.Off+i], smt.I64(int64(s[i])))
			}
		}
		return smt.I64(int64(n))
	case "delete":
		ex.mapDelete(args[0].(*Map), args[1])
		return nil
	case "panic":
		ex.goPanic("explicit panic: %s", describe(args[0]))
	case "close":
		ch := args[0].(*Chan)
		if ch == nil {
			ex.goPanic("close of nil channel")
		}
		ex.yieldPoint(nil, nil)
		if ch.Closed {
			ex.goPanic("close of closed channel")
		}
		ch.Closed = true
		return nil
	case "ssa:wrapnilchk":
		if p, ok := args[0].(Pointer); ok && p.C == nil {
			ex.goPanic("value method %v.%v called using nil pointer", describe(args[1]), describe(args[2]))
		}
		return args[0]
	case "print", "println":
		return nil
	case "min", "max":
		r := term(args[0])
		for _, a := range args[1:] {
			t := term(a)
			if name == "min" {
				r = smt.Ite(smt.Le(r, t), r, t)
			} else {
				r = smt.Ite(smt.Ge(r, t), r, t)
			}
		}
		return r
	case "clear":
		if m, ok := args[0].(*Map); ok && m != nil {
			m.E = nil
		}
		return nil
	}
	panic("builtin " + name)
}

// ---------- channels (sequential semantics) ----------

func (ex *Exec) chanSend(cv, v Value) {
	ch := cv.(*Chan)
	if ch == nil {
		ex.end(EndUnsupported, "send on nil channel blocks forever")
	}
	if ch.Closed {
		ex.goPanic("send on closed channel")
	}
	ex.yieldPoint(nil, func() bool { return ch.Closed || len(ch.Buf) < ch.Cap })
	if ch.Closed {
		ex.goPanic("send on closed channel")
	}
	if len(ch.Buf) >= ch.Cap {
		ex.end(EndUnsupported, "blocking send (sequential model)")
	}
	ch.Buf = append(ch.Buf, v)
}

func (ex *Exec) chanTryRecv(ch *Chan) (Value, bool, bool) {
	if ch == nil {
		return nil, false, false
	}
	if len(ch.Buf) > 0 {
		v := ch.Buf[0]
		ch.Buf = ch.Buf[1:]
		return v, true, true
	}
	if ch.Gen != nil {
		v, ok := ch.Gen(ex)
		if ok {
			return v, true, true
		}
	}
	if ch.Closed {
		return nil, false, true
	}
	return nil, false, false
}

func (ex *Exec) chanRecv(cv Value, blocking bool) (Value, bool) {
	ch := cv.(*Chan)
	if ch != nil {
		ex.yieldPoint(nil, func() bool { return len(ch.Buf) > 0 || ch.Closed || ch.Gen != nil })
	}
	v, ok, ready := ex.chanTryRecv(ch)
	if !ready {
		ex.end(EndUnsupported, "blocking receive (sequential model)")
	}
	return v, ok
}

func (ex *Exec) selectOp(fr *frame, x *ssa.Select) Value {
	// result tuple: (index int, recvOk bool, r_0 T_0, ... r_n-1 T_n-1)
	tt := x.Type().(*types.Tuple)
	res := make(Tuple, tt.Len())
	res[1] = smt.False
	for i := 2; i < tt.Len(); i++ {
		res[i] = ex.zero(tt.At(i).Type())
	}
	// ready states
	var ready []int
	chans := make([]*Chan, len(x.States))
	for i, st := range x.States {
		chans[i] = ex.get(fr, st.Chan).(*Chan)
	}
	isReady := func(i int) bool {
		ch := chans[i]
		if ch == nil {
			return false
		}
		if x.States[i].Dir == types.SendOnly {
			return ch.Closed || len(ch.Buf) < ch.Cap
		}
		return len(ch.Buf) > 0 || ch.Closed || ch.Gen != nil
	}
	if x.Blocking {
		ex.yieldPoint(nil, func() bool {
			for i := range chans {
				if isReady(i) {
					return true
				}
			}
			return false
		})
	} else {
		ex.yieldPoint(nil, nil)
	}
	for i, st := range x.States {
		ch := ex.get(fr, st.Chan).(*Chan)
		if ch == nil {
			continue
		}
		if st.Dir == types.SendOnly {
			if ch.Closed {
				ex.goPanic("send on closed channel")
			}
			if len(ch.Buf) < ch.Cap {
				ready = append(ready, i)
			}
		} else {
			if len(ch.Buf) > 0 || ch.Closed || ch.Gen != nil {
				ready = append(ready, i)
			}
		}
	}
	if len(ready) == 0 {
		if !x.Blocking {
			res[0] = smt.I64(-1)
			return res
		}
		ex.end(EndUnsupported, "blocking select with no ready case (sequential model)")
	}
	pick := ready[0]
	if len(ready) > 1 {
		// the runtime picks uniformly: fork over all ready cases
		conds := make([]*smt.Term, len(ready))
		sel := ex.freshInt("select", big.NewInt(0), big.NewInt(int64(len(ready)-1)))
		for i := range ready {
			conds[i] = smt.Eq(sel, smt.I64(int64(i)))
		}
		pick = ready[ex.choose(conds)]
	}
	st := x.States[pick]
	ch := ex.get(fr, st.Chan).(*Chan)
	res[0] = smt.I64(int64(pick))
	if st.Dir == types.SendOnly {
		ch.Buf = append(ch.Buf, ex.get(fr, st.Send))
		return res
	}
	v, ok, _ := ex.chanTryRecv(ch)
	res[1] = smt.BoolC(ok)
	// position of this receive among the recv states
	ri := 2
	for i := 0; i < pick; i++ {
		if x.States[i].Dir == types.RecvOnly {
			ri++
		}
	}
	if ok && ri < len(res) {
		res[ri] = v
	}
	return res
}
