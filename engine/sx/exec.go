package sx

import (
	"fmt"
	"go/constant"
	"go/token"
	"go/types"
	"math/big"
	"os"
	"sort"
	"strings"
	"time"

	"gabiverif/smt"

	"golang.org/x/tools/go/ssa"
)

type EndKind int

const (
	EndDone EndKind = iota
	EndAssume
	EndPanic
	EndUnwind
	EndUnsupported
	EndInfeasible
)

func (k EndKind) String() string {
	return [...]string{"done", "assume-false", "panic", "unwind", "unsupported", "infeasible"}[k]
}

type pathEnd struct {
	Kind EndKind
	Msg  string
	Pos  string
}

// Finding is a failed assertion (or reachable panic) with its model.
type Finding struct {
	Label     string
	Kind      string // "assert" | "panic"
	Msg       string
	Pos       string
	Model     smt.Model
	Solver    string
	Decisions []int
	Trace     []string
}

type Exec struct {
	P  *Program
	Ob *Obligation

	pc        []*smt.Term
	decisions []int
	dpos      int
	taken     []int
	alts      [][]int

	globals  map[*ssa.Global]*Cell
	cellSeq  int
	freshSeq map[string]int
	depth    int
	steps    int

	hashes          []*HashApp
	groupIv         map[string]*smt.Term
	groupRev        map[int]*GroupFacet // value term of a group element -> its facet
	primeTerms      map[int]bool        // terms assumed prime (assumePrime)
	modKinds        map[int]*ModInfo
	atoms           map[string]bool
	inInit          bool
	xmlElementTexts []string // element texts for the modelled xml.Decoder.DecodeElement (key stub)

	// results of this path
	findings      []*Finding
	inconclusive  []string
	assertsSeen   map[string]int // label -> number discharged on this path
	reached       map[string]bool
	funcs         map[string]bool
	stubs         map[string]bool
	nFinal        int
	nNontrivial   int
	samples       []string
	native        map[string]interface{} // harness scratch
	sched         *scheduler
	curPos        string
	hashAx        []*smt.Term
	hashAxPc      int
	hashPairN     int
	hashPairAx    []*smt.Term
	oracleSeen    map[int]bool
	oracleVars    []*smt.Term
	oraclePcN     int
	birth         map[string]int
	birthSeq      int
	maxBirthMemo  map[int]int
	lastNow       *smt.Term
	draws         []*smt.Term
	blobs         map[*ArrObj]BigVal
	digests       map[*ArrObj]*smt.Term
	signedMsgs    map[*ArrObj]*SignedMsg
	derBlobs      map[*ArrObj][]derElem
	fs            map[string]*fsFile
	fileContent   map[string]string
	u64           map[*Cell]u64tag
	umaskT        *smt.Term
	digestVals    map[*Array]*smt.Term
	initDone      map[*ssa.Package]bool
	merging       bool
	trace         []string
	mergeCellMark int
}

func (ex *Exec) end(k EndKind, format string, a ...interface{}) {
	panic(&pathEnd{Kind: k, Msg: fmt.Sprintf(format, a...), Pos: ex.curPos})
}

func (ex *Exec) unsupported(format string, a ...interface{}) {
	ex.end(EndUnsupported, format, a...)
}

// goPanic ends the path with a Go-level panic of the code under test.
func (ex *Exec) goPanic(format string, a ...interface{}) {
	ex.end(EndPanic, format, a...)
}

func (ex *Exec) fresh(prefix string) string {
	ex.freshSeq[prefix]++
	return fmt.Sprintf("%s!%d", prefix, ex.freshSeq[prefix])
}

func (ex *Exec) freshInt(prefix string, lo, hi *big.Int) *smt.Term {
	n := ex.fresh(prefix)
	ex.noteVar(n)
	return smt.Var(n, smt.Int, lo, hi)
}

// noteVar records the creation order of a symbolic variable on this path.
func (ex *Exec) noteVar(name string) {
	if _, ok := ex.birth[name]; !ok {
		ex.birthSeq++
		ex.birth[name] = ex.birthSeq
	}
}

// maxBirth is the creation time of the youngest variable in t (0 if none/unknown).
func (ex *Exec) maxBirth(t *smt.Term) int {
	if v, ok := ex.maxBirthMemo[t.ID]; ok {
		return v
	}
	m := 0
	if t.Op == smt.OVar {
		m = ex.birth[t.Name]
	}
	for _, a := range t.Args {
		if b := ex.maxBirth(a); b > m {
			m = b
		}
	}
	ex.maxBirthMemo[t.ID] = m
	return m
}

func (ex *Exec) assume(c *smt.Term) {
	if c.IsTrue() {
		return
	}
	if c.IsFalse() {
		ex.end(EndAssume, "assumption false")
	}
	ex.pc = append(ex.pc, c)
}

func pcKey(pc []*smt.Term, c *smt.Term) string {
	ids := make([]int, 0, len(pc)+1)
	for _, t := range pc {
		ids = append(ids, t.ID)
	}
	sort.Ints(ids)
	var sb strings.Builder
	last := -1
	for _, id := range ids {
		if id != last {
			fmt.Fprintf(&sb, "%d,", id)
		}
		last = id
	}
	if c != nil {
		fmt.Fprintf(&sb, "|%d", c.ID)
	}
	return sb.String()
}

// constraints returns the path condition plus the lazily generated side
// constraints (hash injectivity).
func (ex *Exec) constraints(extra ...*smt.Term) []*smt.Term {
	hx := ex.hashAxioms()
	out := append([]*smt.Term{}, ex.pc...)
	out = append(out, hx...)
	out = append(out, extra...)
	return out
}

func (ex *Exec) feasible(c *smt.Term) bool {
	if c.IsTrue() {
		return true
	}
	if c.IsFalse() {
		return false
	}
	ex.abortIfHopeless()
	as := append(smt.Slice(ex.constraints(), c), c)
	key := "F" + pcKey(as, nil)
	if r, ok := ex.P.cacheGet(key); ok {
		return r != smt.Unsat
	}
	t0 := time.Now()
	var r smt.Result
	r, _, _ = smt.Check(ex.P.QuickSolver, as, false, ex.P.QuickLimit/2)
	if r == smt.Unknown && smt.Relaxable(as) {
		// real relaxation: unsat is exact, sat over-approximates feasibility
		r, _ = smt.CheckRelaxed(ex.P.QuickSolver, as, ex.P.QuickLimit)
		if r == smt.Unknown && ex.P.QuickFallback {
			r, _ = smt.PortfolioRelaxed(as, ex.P.QuickLimit*2)
		}
	} else if r == smt.Unknown && ex.P.QuickFallback {
		r, _, _, _ = smt.Portfolio(as, false, ex.P.QuickLimit*2, false)
	}
	if os.Getenv("GSX_DEBUG") == "slow" && time.Since(t0) > 1500*time.Millisecond {
		sc, _ := smt.Script(as, false)
		os.WriteFile(fmt.Sprintf("/tmp/gsx-slow-%d.smt2", time.Now().UnixNano()), []byte(sc), 0o644)
	}
	ex.P.cachePut(key, r)
	ex.P.noteBranch(r)
	return r != smt.Unsat
}

// choose picks one of mutually exclusive conditions; every feasible
// alternative is scheduled as another path.
func (ex *Exec) choose(conds []*smt.Term) int {
	// concrete?
	nt := -1
	allConst := true
	for i, c := range conds {
		if c.IsTrue() {
			nt = i
		}
		if !c.IsConst() {
			allConst = false
		}
	}
	if nt >= 0 {
		return nt
	}
	if allConst {
		ex.end(EndInfeasible, "no alternative possible")
	}
	if ex.dpos < len(ex.decisions) {
		d := ex.decisions[ex.dpos]
		ex.dpos++
		ex.taken = append(ex.taken, d)
		ex.note(d, 0)
		ex.assume(conds[d])
		return d
	}
	var feas []int
	for i, c := range conds {
		if (ex.merging && !c.IsFalse()) || (!ex.merging && ex.feasible(c)) {
			feas = append(feas, i)
		}
	}
	if len(feas) == 0 {
		ex.end(EndInfeasible, "path condition infeasible")
	}
	for _, i := range feas[1:] {
		alt := append(append([]int{}, ex.taken...), i)
		ex.alts = append(ex.alts, alt)
	}
	d := feas[0]
	ex.taken = append(ex.taken, d)
	ex.note(d, len(feas))
	ex.assume(conds[d])
	return d
}

func (ex *Exec) note(d, nfeas int) {
	if ex.merging {
		return
	}
	ex.trace = append(ex.trace, fmt.Sprintf("%s:%d/%d", ex.curPos, d, nfeas))
	if len(ex.trace) > 600 {
		ex.trace = ex.trace[300:]
	}
}

func (ex *Exec) branch(c *smt.Term) bool {
	if c.IsTrue() {
		return true
	}
	if c.IsFalse() {
		return false
	}
	return ex.choose([]*smt.Term{c, smt.Not(c)}) == 0
}

// panicIf forks: if cond can hold the path that takes it ends in a panic.
func (ex *Exec) panicIf(c *smt.Term, format string, a ...interface{}) {
	if c.IsFalse() {
		return
	}
	if ex.branch(c) {
		ex.goPanic(format, a...)
	}
}

// concretize turns an integer term into a concrete int, forking over small ranges.
func (ex *Exec) concretize(t *smt.Term, what string) int {
	if v, ok := t.ConstInt64(); ok {
		return int(v)
	}
	if t.Lo != nil && t.Hi != nil {
		w := new(big.Int).Sub(t.Hi, t.Lo)
		if w.IsInt64() && w.Int64() < 70 {
			lo := t.Lo.Int64()
			conds := make([]*smt.Term, w.Int64()+1)
			for i := range conds {
				conds[i] = smt.Eq(t, smt.I64(lo+int64(i)))
			}
			return int(lo) + ex.choose(conds)
		}
	}
	ex.unsupported("cannot concretize %s: %s", what, t)
	return 0
}

// ---------- frames and instructions ----------

type deferred struct {
	fn   Value
	args []Value
	call *ssa.CallCommon
}

type frame struct {
	fn     *ssa.Function
	env    map[ssa.Value]Value
	defers []deferred
	visits map[*ssa.BasicBlock]int
	result Value
}

func (ex *Exec) posOf(p token.Pos) string {
	if !p.IsValid() {
		return ""
	}
	pp := ex.P.Fset.Position(p)
	f := pp.Filename
	if i := strings.Index(f, "/repo/"); i >= 0 {
		f = f[i+6:]
	}
	return fmt.Sprintf("%s:%d", f, pp.Line)
}

func (ex *Exec) get(fr *frame, v ssa.Value) Value {
	switch x := v.(type) {
	case *ssa.Const:
		return ex.constVal(x)
	case *ssa.Function:
		return &Closure{Fn: x}
	case *ssa.Global:
		return Pointer{C: ex.global(x)}
	case *ssa.Builtin:
		return &Closure{Ext: "builtin:" + x.Name()}
	}
	r, ok := fr.env[v]
	if !ok {
		panic(fmt.Sprintf("unbound SSA value %s (%T) in %s", v.Name(), v, fr.fn))
	}
	return r
}

func (ex *Exec) constVal(c *ssa.Const) Value {
	t := c.Type()
	if c.Value == nil {
		return ex.zero(t)
	}
	if isBigIntType(t) {
		return bigConst(0)
	}
	switch u := t.Underlying().(type) {
	case *types.Basic:
		switch {
		case u.Info()&types.IsBoolean != 0:
			return smt.BoolC(constant.BoolVal(c.Value))
		case u.Info()&types.IsInteger != 0:
			v, ok := new(big.Int).SetString(constant.ToInt(c.Value).ExactString(), 10)
			if !ok {
				panic("bad int const")
			}
			return smt.IntC(v)
		case u.Info()&types.IsString != 0:
			return constant.StringVal(c.Value)
		case u.Info()&types.IsFloat != 0:
			f, _ := constant.Float64Val(c.Value)
			return f
		}
	}
	panic(fmt.Sprintf("constVal: unhandled const %s of type %s", c, t))
}

func (ex *Exec) global(g *ssa.Global) *Cell {
	if c, ok := ex.globals[g]; ok {
		return c
	}
	// lazy package initialisation: run the package's init the first time one of its
	// globals is touched (its init calls the inits of its dependencies itself)
	if g.Pkg != nil && (ex.P.isTarget(g.Pkg.Pkg.Path()) || initFromSource[g.Pkg.Pkg.Path()]) && !ex.initDone[g.Pkg] && !strings.HasPrefix(g.Name(), "init$") {
		ex.initDone[g.Pkg] = true
		if init := g.Pkg.Func("init"); init != nil {
			saved := ex.inInit
			savedPos := ex.curPos
			ex.inInit = true
			ex.interpret(init, nil)
			ex.inInit = saved
			ex.curPos = savedPos
		}
		if c, ok := ex.globals[g]; ok {
			return c
		}
	}
	if g.Pkg != nil && !ex.P.isTarget(g.Pkg.Pkg.Path()) && !initFromSource[g.Pkg.Pkg.Path()] {
		// external package variable: modelled lazily
		c := ex.cellOf(ex.externGlobal(g))
		ex.globals[g] = c
		return c
	}
	savedInit := ex.inInit
	ex.inInit = true // package-level variables are owned by the program (scheduler)
	c := ex.alloc(g.Type().(*types.Pointer).Elem())
	ex.inInit = savedInit
	ex.globals[g] = c
	return c
}

// initFromSource: standard-library packages that are interpreted from source *and* whose package
// initialiser is run (their tables are built by it); the inits of their own dependencies are skipped.
var initFromSource = map[string]bool{"encoding/base64": true}

var traceCalls = os.Getenv("GSX_TRACE") == "calls"

const maxDepth = 200

func (ex *Exec) callFunction(fn *ssa.Function, args []Value) Value {
	name := fn.String()
	if fn.Origin() != nil {
		name = fn.Origin().String()
	}
	if m, ok := ex.P.models[name]; ok {
		if r, handled := m(ex, fn, args); handled {
			if !strings.HasPrefix(name, "(*math/big.Int)") && !strings.HasPrefix(name, "math/big.") && !strings.Contains(name, ".vp") {
				ex.stubs[name] = true
			}
			return r
		}
	}
	if strings.Contains(fn.Name(), "vp") && fn.Pkg != nil && ex.P.isTarget(fn.Pkg.Pkg.Path()) {
		if r, ok := ex.prim(fn, args); ok {
			return r
		}
	}
	pkgPath := ""
	if fn.Pkg != nil {
		pkgPath = fn.Pkg.Pkg.Path()
	} else if fn.Origin() != nil && fn.Origin().Pkg != nil {
		pkgPath = fn.Origin().Pkg.Pkg.Path()
	} else if p := fn.Parent(); p != nil && p.Pkg != nil {
		pkgPath = p.Pkg.Pkg.Path()
	} else if fn.Synthetic != "" {
		// wrappers/bound methods/thunks: allowed, they delegate
		pkgPath = "synthetic"
	}
	if len(fn.Blocks) == 0 {
		if ex.inInit {
			return ex.zeroResults(fn.Signature)
		}
		ex.unsupported("call to %s (no body)", name)
	}
	if pkgPath != "synthetic" && !ex.P.isTarget(pkgPath) && !ex.P.allowed(pkgPath) {
		if ex.inInit {
			return ex.zeroResults(fn.Signature)
		}
		ex.unsupported("call to %s (package %s not modelled)", name, pkgPath)
	}
	if ex.P.isTarget(pkgPath) && !strings.Contains(fn.Name(), "vp") {
		ex.funcs[name] = true
	}
	if ex.Ob.mergeSet()[name] {
		if r, ok := ex.mergedCall(fn, args); ok {
			return r
		}
	}
	if traceCalls && ex.P.isTarget(pkgPath) && ex.depth < 8 {
		fmt.Fprintf(os.Stderr, "%*scall %s\n", ex.depth*2, "", name)
		r := ex.interpret(fn, args)
		fmt.Fprintf(os.Stderr, "%*sret  %s = %.200s\n", ex.depth*2, "", name, describe(r))
		return r
	}
	return ex.interpret(fn, args)
}

func (ex *Exec) zeroResults(sig *types.Signature) Value {
	r := sig.Results()
	switch r.Len() {
	case 0:
		return nil
	case 1:
		return ex.zero(r.At(0).Type())
	}
	return ex.zero(r)
}

func (ex *Exec) interpret(fn *ssa.Function, args []Value) Value {
	ex.depth++
	if ex.depth > maxDepth {
		ex.end(EndUnwind, "call depth exceeded in %s", fn)
	}
	defer func() { ex.depth-- }()
	fr := &frame{fn: fn, env: make(map[ssa.Value]Value, 32), visits: map[*ssa.BasicBlock]int{}}
	for i, p := range fn.Params {
		fr.env[p] = args[i]
	}
	// free variables are bound by the caller through args tail (see callClosure)
	for i, fv := range fn.FreeVars {
		fr.env[fv] = args[len(fn.Params)+i]
	}
	var prev *ssa.BasicBlock
	b := fn.Blocks[0]
	symJump := false
	for {
		// the unwinding bound applies to loops steered by symbolic conditions; loops
		// with concrete conditions are bounded by the step budget
		if symJump {
			fr.visits[b]++
			if fr.visits[b] > ex.Ob.unwind() {
				ex.end(EndUnwind, "loop bound %d exceeded in %s block %d", ex.Ob.unwind(), fn, b.Index)
			}
		}
		symJump = false
		var next *ssa.BasicBlock
		// phi nodes of a block are evaluated in parallel (swap patterns)
		{
			var phis []*ssa.Phi
			var vals []Value
			for _, in := range b.Instrs {
				x, ok := in.(*ssa.Phi)
				if !ok {
					break
				}
				for i, pb := range b.Preds {
					if pb == prev {
						phis = append(phis, x)
						vals = append(vals, ex.get(fr, x.Edges[i]))
						break
					}
				}
			}
			for i, x := range phis {
				fr.env[x] = vals[i]
			}
		}
		for _, in := range b.Instrs {
			ex.steps++
			if ex.steps > ex.P.MaxSteps {
				ex.end(EndUnwind, "step budget exceeded")
			}
			if p := in.Pos(); p.IsValid() {
				ex.curPos = ex.posOf(p)
			}
			switch x := in.(type) {
			case *ssa.Phi:
				// handled above
			case *ssa.If:
				c := term(ex.get(fr, x.Cond))
				symJump = !c.IsConst()
				if ex.branch(c) {
					next = b.Succs[0]
				} else {
					next = b.Succs[1]
				}
			case *ssa.Jump:
				next = b.Succs[0]
			case *ssa.Return:
				var res Value
				switch len(x.Results) {
				case 0:
				case 1:
					res = ex.get(fr, x.Results[0])
				default:
					t := make(Tuple, len(x.Results))
					for i, r := range x.Results {
						t[i] = ex.get(fr, r)
					}
					res = t
				}
				ex.runDefers(fr)
				return res
			case *ssa.RunDefers:
				ex.runDefers(fr)
			case *ssa.Panic:
				v := ex.get(fr, x.X)
				ex.goPanic("explicit panic: %s", describe(v))
			case *ssa.Defer:
				d := deferred{call: &x.Call}
				if x.Call.IsInvoke() {
					d.fn = ex.get(fr, x.Call.Value)
				} else {
					d.fn = ex.get(fr, x.Call.Value)
				}
				for _, a := range x.Call.Args {
					d.args = append(d.args, ex.get(fr, a))
				}
				fr.defers = append(fr.defers, d)
			case *ssa.Go:
				ex.goStmt(fr, x)
			case *ssa.Store:
				p := ex.get(fr, x.Addr).(Pointer)
				if p.C == nil {
					ex.goPanic("nil pointer dereference (store)")
				}
				ex.noteAccess(p.C, true)
				if ex.merging && p.C.ID <= ex.mergeCellMark && p.C.ID != 0 {
					panic(mergeAbort{"write to a cell older than the merged call"})
				}
				ex.store(p.C, ex.get(fr, x.Val))
			case *ssa.MapUpdate:
				ex.mapUpdate(ex.get(fr, x.Map), ex.get(fr, x.Key), ex.get(fr, x.Value))
			case *ssa.Send:
				ex.chanSend(ex.get(fr, x.Chan), ex.get(fr, x.X))
			case *ssa.DebugRef:
			case ssa.Value:
				fr.env[x] = ex.eval(fr, x)
			default:
				panic(fmt.Sprintf("unhandled instruction %T", in))
			}
		}
		if next == nil {
			panic("block without terminator in " + fn.String())
		}
		prev, b = b, next
	}
}

func (ex *Exec) runDefers(fr *frame) {
	for len(fr.defers) > 0 {
		d := fr.defers[len(fr.defers)-1]
		fr.defers = fr.defers[:len(fr.defers)-1]
		if d.call.IsInvoke() {
			ex.invoke(d.fn, d.call.Method, d.args)
		} else {
			ex.callValue(d.fn, d.args)
		}
	}
}

func describe(v Value) string {
	switch x := v.(type) {
	case Iface:
		if x.T == nil {
			return "nil"
		}
		return fmt.Sprintf("%s(%s)", x.T, describe(x.V))
	case string:
		return fmt.Sprintf("%q", x)
	case *smt.Term:
		return x.String()
	case Pointer:
		if x.C == nil {
			return "nil"
		}
		return "&" + describe(x.C.V)
	case *Opaque:
		return fmt.Sprintf("<%s %v>", x.Kind, x.Data)
	case BigVal:
		return "big(" + x.I.String() + ")"
	case Tuple:
		r := "("
		for _, e := range x {
			r += describe(e) + ", "
		}
		return r + ")"
	case nil:
		return "<void>"
	}
	return fmt.Sprintf("%T", v)
}

func (ex *Exec) eval(fr *frame, v ssa.Value) Value {
	switch x := v.(type) {
	case *ssa.Alloc:
		return Pointer{C: ex.alloc(x.Type().(*types.Pointer).Elem())}
	case *ssa.BinOp:
		return ex.binop(x.Op, ex.get(fr, x.X), ex.get(fr, x.Y), x.X.Type(), x.Type())
	case *ssa.UnOp:
		return ex.unop(fr, x)
	case *ssa.Call:
		return ex.call(fr, &x.Call)
	case *ssa.ChangeType:
		return ex.get(fr, x.X)
	case *ssa.ChangeInterface:
		return ex.get(fr, x.X)
	case *ssa.Convert:
		return ex.convert(ex.get(fr, x.X), x.X.Type(), x.Type())
	case *ssa.MultiConvert:
		return ex.convert(ex.get(fr, x.X), x.X.Type(), x.Type())
	case *ssa.MakeInterface:
		return Iface{T: x.X.Type(), V: ex.get(fr, x.X)}
	case *ssa.Extract:
		return ex.get(fr, x.Tuple).(Tuple)[x.Index]
	case *ssa.Field:
		return ex.get(fr, x.X).(*Struct).F[x.Field]
	case *ssa.FieldAddr:
		p := ex.get(fr, x.X).(Pointer)
		if p.C == nil {
			ex.goPanic("nil pointer dereference (field %d of %s)", x.Field, x.X.Type())
		}
		if o, isOpaque := p.C.V.(*Opaque); isOpaque {
			// a field of an object we do not look into: another opaque object
			ex.cellSeq++
			return Pointer{C: &Cell{ID: ex.cellSeq, V: &Opaque{Kind: o.Kind + ".field", Data: o.Data}}}
		}
		so, ok := p.C.V.(*StructObj)
		if !ok {
			panic(fmt.Sprintf("FieldAddr on %T (%s) at %s", p.C.V, x.X.Type(), ex.curPos))
		}
		return Pointer{C: so.F[x.Field]}
	case *ssa.Index:
		return ex.index(ex.get(fr, x.X), term(ex.get(fr, x.Index)))
	case *ssa.IndexAddr:
		idx := term(ex.get(fr, x.Index))
		if !idx.IsConst() {
			if p, ok := ex.symbolicElemRead(fr, x, idx); ok {
				return p
			}
		}
		return ex.indexAddr(ex.get(fr, x.X), idx)
	case *ssa.Lookup:
		return ex.lookup(ex.get(fr, x.X), ex.get(fr, x.Index), x.CommaOk, x.Type())
	case *ssa.Slice:
		return ex.sliceOp(fr, x)
	case *ssa.MakeSlice:
		n := ex.concretize(term(ex.get(fr, x.Len)), "make len")
		c := ex.concretize(term(ex.get(fr, x.Cap)), "make cap")
		if n < 0 || c < n {
			ex.goPanic("makeslice: len out of range")
		}
		if c > 1<<16 {
			ex.unsupported("make slice of %d elements", c)
		}
		return ex.makeSlice(x.Type().Underlying().(*types.Slice).Elem(), n, c)
	case *ssa.MakeMap:
		return &Map{}
	case *ssa.MakeChan:
		n := ex.concretize(term(ex.get(fr, x.Size)), "chan size")
		return &Chan{Cap: n}
	case *ssa.MakeClosure:
		cl := &Closure{Fn: x.Fn.(*ssa.Function)}
		for _, b := range x.Bindings {
			cl.Env = append(cl.Env, ex.get(fr, b))
		}
		return cl
	case *ssa.TypeAssert:
		return ex.typeAssert(ex.get(fr, x.X).(Iface), x)
	case *ssa.Range:
		return ex.rangeInit(ex.get(fr, x.X))
	case *ssa.Next:
		return ex.rangeNext(ex.get(fr, x.Iter).(*rangeIter), x)
	case *ssa.Select:
		return ex.selectOp(fr, x)
	case *ssa.SliceToArrayPointer:
		s := ex.get(fr, x.X).(Slice)
		n := int(x.Type().(*types.Pointer).Elem().Underlying().(*types.Array).Len())
		if s.Len < n {
			ex.goPanic("slice to array pointer: length")
		}
		if s.A == nil {
			return Pointer{}
		}
		ex.cellSeq++
		return Pointer{C: &Cell{ID: ex.cellSeq, V: &ArrObj{E: s.A.E[s.Off : s.Off+n]}}}
	}
	panic(fmt.Sprintf("eval: unhandled %T", v))
}

func (ex *Exec) makeSlice(elem types.Type, n, c int) Slice {
	a := &ArrObj{E: make([]*Cell, c)}
	for i := range a.E {
		a.E[i] = ex.alloc(elem)
	}
	return Slice{A: a, Len: n, Cap: c}
}

func (ex *Exec) unop(fr *frame, x *ssa.UnOp) Value {
	v := ex.get(fr, x.X)
	switch x.Op {
	case token.MUL:
		p := v.(Pointer)
		if p.C == nil {
			ex.goPanic("nil pointer dereference (load %s)", x.X.Type())
		}
		ex.noteAccess(p.C, false)
		return ex.load(p.C)
	case token.NOT:
		return smt.Not(term(v))
	case token.SUB:
		if f, ok := v.(float64); ok {
			return -f
		}
		k, _ := intKindOf(x.Type())
		return k.wrap(smt.Neg(term(v)))
	case token.XOR:
		k, _ := intKindOf(x.Type())
		return k.wrap(smt.Sub(smt.I64(-1), term(v)))
	case token.ARROW:
		val, ok := ex.chanRecv(v, true)
		if x.CommaOk {
			return Tuple{val, smt.BoolC(ok)}
		}
		return val
	}
	panic("unop " + x.Op.String())
}

func (ex *Exec) index(c Value, i *smt.Term) Value {
	switch a := c.(type) {
	case *Array:
		ex.panicIf(smt.Or(smt.Lt(i, smt.I64(0)), smt.Ge(i, smt.I64(int64(len(a.E))))), "index out of range")
		return a.E[ex.concretizeIdx(i, len(a.E))]
	case string:
		ex.panicIf(smt.Or(smt.Lt(i, smt.I64(0)), smt.Ge(i, smt.I64(int64(len(a))))), "string index out of range")
		return smt.I64(int64(a[ex.concretizeIdx(i, len(a))]))
	}
	panic(fmt.Sprintf("index on %T", c))
}

// concretizeIdx forks over 0..n-1 (the index is known to be in range).
func (ex *Exec) concretizeIdx(i *smt.Term, n int) int {
	if v, ok := i.ConstInt64(); ok {
		return int(v)
	}
	if n > 256 {
		ex.unsupported("symbolic index into %d elements", n)
	}
	conds := make([]*smt.Term, n)
	for k := range conds {
		conds[k] = smt.Eq(i, smt.I64(int64(k)))
	}
	return ex.choose(conds)
}

// symbolicElemRead: &a[i] with a symbolic i whose only use is the load that follows it (a table
// look-up, as in encoding/base64) over elements that are all integer terms: instead of forking on
// the index the address of a fresh read-only cell holding ite(i = 0, a[0], ite(i = 1, a[1], ...))
// is returned. Anything else (stores through the address, non-scalar elements) forks as before.
func (ex *Exec) symbolicElemRead(fr *frame, x *ssa.IndexAddr, i *smt.Term) (Value, bool) {
	refs := x.Referrers()
	if refs == nil || len(*refs) != 1 {
		return nil, false
	}
	ld, ok := (*refs)[0].(*ssa.UnOp)
	if !ok || ld.Op != token.MUL || ld.Block() != x.Block() {
		return nil, false
	}
	instrs := x.Block().Instrs
	next := false
	for k, in := range instrs {
		if in == ssa.Instruction(x) && k+1 < len(instrs) && instrs[k+1] == ssa.Instruction(ld) {
			next = true
		}
	}
	if !next {
		return nil, false
	}
	var cells []*Cell
	switch a := ex.get(fr, x.X).(type) {
	case Slice:
		if a.A == nil {
			return nil, false
		}
		cells = a.A.E[a.Off : a.Off+a.Len]
	case Pointer:
		if a.C == nil {
			return nil, false
		}
		ao, ok := a.C.V.(*ArrObj)
		if !ok {
			return nil, false
		}
		cells = ao.E
	default:
		return nil, false
	}
	if len(cells) < 2 || len(cells) > 256 {
		return nil, false
	}
	for _, c := range cells {
		if t, ok := c.V.(*smt.Term); !ok || t.Sort != smt.Int {
			return nil, false
		}
	}
	// a look-up by the result of another look-up (decodeMap[encode[j]]): compose the tables
	if i.Op == smt.OIte {
		allConst := true
		for _, c := range cells {
			if !c.V.(*smt.Term).IsConst() {
				allConst = false
			}
		}
		if allConst {
			if v, ok := mapIteLeaves(i, func(k int64) *smt.Term {
				if k < 0 || k >= int64(len(cells)) {
					return nil
				}
				return cells[k].V.(*smt.Term)
			}, 0); ok {
				if id, ok := identityChain(v); ok {
					v = id
				}
				ex.cellSeq++
				return Pointer{C: &Cell{ID: ex.cellSeq, V: v}}, true
			}
		}
	}
	ex.panicIf(smt.Or(smt.Lt(i, smt.I64(0)), smt.Ge(i, smt.I64(int64(len(cells))))), "index out of range [%s] with length %d", i, len(cells))
	// the identity table over the index's whole range is the index itself
	if i.Lo != nil && i.Hi != nil && i.Lo.Sign() >= 0 && i.Hi.IsInt64() && i.Hi.Int64() < int64(len(cells)) {
		ident := true
		for k := int64(0); k <= i.Hi.Int64(); k++ {
			if v, ok := cells[k].V.(*smt.Term).ConstInt64(); !ok || v != k {
				ident = false
				break
			}
		}
		if ident {
			ex.cellSeq++
			return Pointer{C: &Cell{ID: ex.cellSeq, V: i}}, true
		}
	}
	v := cells[len(cells)-1].V.(*smt.Term)
	for k := len(cells) - 2; k >= 0; k-- {
		v = smt.Ite(smt.Eq(i, smt.I64(int64(k))), cells[k].V.(*smt.Term), v)
	}
	ex.cellSeq++
	return Pointer{C: &Cell{ID: ex.cellSeq, V: v}}, true
}

// mapIteLeaves rebuilds an if-then-else tree whose leaves are integer constants with f applied to
// every leaf; ok = false if a leaf is not a constant, f refuses it, or the tree is too deep.
func mapIteLeaves(t *smt.Term, f func(int64) *smt.Term, depth int) (*smt.Term, bool) {
	if depth > 300 {
		return nil, false
	}
	if v, ok := t.ConstInt64(); ok {
		r := f(v)
		return r, r != nil
	}
	if t.Op != smt.OIte || len(t.Args) != 3 {
		return nil, false
	}
	a, ok := mapIteLeaves(t.Args[1], f, depth+1)
	if !ok {
		return nil, false
	}
	b, ok := mapIteLeaves(t.Args[2], f, depth+1)
	if !ok {
		return nil, false
	}
	return smt.Ite(t.Args[0], a, b), true
}

// identityChain: ite(j = 0, 0, ite(j = 1, 1, ... n)) over a j whose interval is [0, n] is j itself
// (what composing a decoding table with its encoding table gives).
func identityChain(t *smt.Term) (*smt.Term, bool) {
	var j *smt.Term
	seen := map[int64]bool{}
	cur := t
	for depth := 0; depth < 300; depth++ {
		if v, ok := cur.ConstInt64(); ok {
			if j == nil || j.Lo == nil || j.Hi == nil || !j.Hi.IsInt64() || j.Lo.Sign() < 0 {
				return nil, false
			}
			seen[v] = true
			for k := j.Lo.Int64(); k <= j.Hi.Int64(); k++ {
				if !seen[k] {
					return nil, false
				}
			}
			return j, true
		}
		if cur.Op != smt.OIte || len(cur.Args) != 3 {
			return nil, false
		}
		k, ok := cur.Args[1].ConstInt64()
		if !ok {
			return nil, false
		}
		jj, kk, ok := eqVarConst(cur.Args[0])
		if !ok || kk != k || (j != nil && jj != j) {
			return nil, false
		}
		j = jj
		seen[k] = true
		cur = cur.Args[2]
	}
	return nil, false
}

// eqVarConst recognises the term smt.Eq(j, k) builds for a constant k.
func eqVarConst(c *smt.Term) (*smt.Term, int64, bool) {
	if c.Op != smt.OEq || len(c.Args) != 2 {
		return nil, 0, false
	}
	if k, ok := c.Args[1].ConstInt64(); ok {
		return c.Args[0], k, true
	}
	if k, ok := c.Args[0].ConstInt64(); ok {
		return c.Args[1], k, true
	}
	return nil, 0, false
}

func (ex *Exec) indexAddr(c Value, i *smt.Term) Value {
	switch a := c.(type) {
	case Slice:
		ex.panicIf(smt.Or(smt.Lt(i, smt.I64(0)), smt.Ge(i, smt.I64(int64(a.Len)))), "index out of range [%s] with length %d", i, a.Len)
		return Pointer{C: a.A.E[a.Off+ex.concretizeIdx(i, a.Len)]}
	case Pointer:
		if a.C == nil {
			ex.goPanic("nil pointer dereference (array index)")
		}
		ao := a.C.V.(*ArrObj)
		ex.panicIf(smt.Or(smt.Lt(i, smt.I64(0)), smt.Ge(i, smt.I64(int64(len(ao.E))))), "index out of range")
		return Pointer{C: ao.E[ex.concretizeIdx(i, len(ao.E))]}
	}
	panic(fmt.Sprintf("indexAddr on %T", c))
}

func (ex *Exec) sliceOp(fr *frame, x *ssa.Slice) Value {
	v := ex.get(fr, x.X)
	idx := func(e ssa.Value, def int) int {
		if e == nil {
			return def
		}
		return ex.concretize(term(ex.get(fr, e)), "slice bound")
	}
	switch a := v.(type) {
	case string:
		lo, hi := idx(x.Low, 0), idx(x.High, len(a))
		if lo < 0 || hi > len(a) || lo > hi {
			ex.goPanic("slice bounds out of range [%d:%d] of string length %d", lo, hi, len(a))
		}
		return a[lo:hi]
	case Slice:
		lo := idx(x.Low, 0)
		hi := idx(x.High, a.Len)
		mx := idx(x.Max, a.Cap)
		if lo < 0 || hi < lo || hi > a.Cap || mx > a.Cap || hi > mx {
			ex.goPanic("slice bounds out of range [%d:%d:%d] with capacity %d", lo, hi, mx, a.Cap)
		}
		if a.A == nil {
			return Slice{}
		}
		return Slice{A: a.A, Off: a.Off + lo, Len: hi - lo, Cap: mx - lo}
	case Pointer:
		if a.C == nil {
			ex.goPanic("nil pointer dereference (slice of array)")
		}
		ao := a.C.V.(*ArrObj)
		lo := idx(x.Low, 0)
		hi := idx(x.High, len(ao.E))
		mx := idx(x.Max, len(ao.E))
		if lo < 0 || hi < lo || hi > len(ao.E) || mx > len(ao.E) || hi > mx {
			ex.goPanic("slice bounds out of range")
		}
		return Slice{A: ao, Off: lo, Len: hi - lo, Cap: mx - lo}
	}
	panic(fmt.Sprintf("slice of %T", v))
}

func (ex *Exec) typeAssert(i Iface, x *ssa.TypeAssert) Value {
	ok := false
	if i.T != nil {
		if types.IsInterface(x.AssertedType) {
			ok = types.Implements(i.T, x.AssertedType.Underlying().(*types.Interface))
		} else {
			ok = types.Identical(i.T, x.AssertedType)
		}
	}
	var res Value
	if ok {
		if types.IsInterface(x.AssertedType) {
			res = i
		} else {
			res = i.V
		}
	} else {
		if !x.CommaOk {
			ex.goPanic("interface conversion: %v is not %s", i.T, x.AssertedType)
		}
		res = ex.zero(x.AssertedType)
	}
	if x.CommaOk {
		return Tuple{res, smt.BoolC(ok)}
	}
	return res
}

var _ = time.Now
