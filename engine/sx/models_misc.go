package sx

import (
	"fmt"
	"go/types"
	"math/big"
	"reflect"
	"strconv"
	"strings"

	"gabiverif/smt"

	"golang.org/x/tools/go/ssa"
)

var (
	byteType = types.Typ[types.Uint8]
	uintType = types.Typ[types.Uint]
)

const commonPkg = TargetModule + "/internal/common"

func (p *Program) namedType(pkg, name string) types.Type {
	sp := p.Pkgs[pkg]
	if sp == nil {
		return nil
	}
	t := sp.Type(name)
	if t == nil {
		return nil
	}
	return t.Type()
}

func (ex *Exec) freshError(tag string) Value {
	et := ex.P.namedType("github.com/go-errors/errors", "Error")
	if et == nil {
		panic("go-errors not loaded")
	}
	ex.cellSeq++
	return Iface{T: types.NewPointer(et), V: Pointer{C: &Cell{ID: ex.cellSeq, V: &Opaque{Kind: "error", Data: tag}}}}
}

func (ex *Exec) externGlobal(g *ssa.Global) Value {
	t := g.Type().(*types.Pointer).Elem()
	name := g.String()
	switch t.Underlying().(type) {
	case *types.Interface:
		return Iface{T: t, V: &Opaque{Kind: "extern", Data: name}}
	case *types.Pointer:
		ex.cellSeq++
		return Pointer{C: &Cell{ID: ex.cellSeq, V: &Opaque{Kind: "extern", Data: name}}}
	case *types.Map:
		if name == "github.com/multiformats/go-multihash.Codes" {
			// only SHA2-256 matters: every other code is rejected by checkHashAlg afterwards
			ex.stubs["multihash.Codes modelled as {0x12: sha2-256}"] = true
			return &Map{E: []*MapEntry{{K: smt.I64(0x12), C: ex.cellOf("sha2-256")}}}
		}
		return &Map{}
	}
	return ex.zero(t)
}

// invokeModel handles interface method calls on opaque dynamic values.
func (ex *Exec) invokeModel(i Iface, method *types.Func, args []Value) (Value, bool) {
	op, isOpaque := i.V.(*Opaque)
	if p, ok := i.V.(Pointer); ok && p.C != nil {
		if o, ok := p.C.V.(*Opaque); ok {
			op, isOpaque = o, true
		}
	}
	if !isOpaque {
		return nil, false
	}
	switch method.Name() {
	case "Error":
		return fmt.Sprintf("<error %v>", op.Data), true
	case "Read":
		if op.Kind == "extern" {
			// random source: fill with fresh bytes
			s := args[0].(Slice)
			for k := 0; k < s.Len; k++ {
				ex.store(s.A.E[s.Off+k], ex.freshInt("rbyte", big.NewInt(0), big.NewInt(255)))
			}
			return Tuple{smt.I64(int64(s.Len)), Iface{}}, true
		}
	}
	return nil, false
}

func noop(ex *Exec, fn *ssa.Function, args []Value) (Value, bool) {
	return ex.zeroResults(fn.Signature), true
}

func registerModels(P *Program) {
	registerBigModels(P)
	m := P.models
	newErr := func(ex *Exec, fn *ssa.Function, args []Value) (Value, bool) {
		tag := "err"
		if len(args) > 0 {
			if s, ok := args[0].(string); ok {
				tag = s
			} else if i, ok := args[0].(Iface); ok {
				if s, ok := i.V.(string); ok {
					tag = s
				}
			}
		}
		e := ex.freshError(tag)
		if fn.Signature.Results().Len() == 1 {
			if _, isPtr := fn.Signature.Results().At(0).Type().(*types.Pointer); isPtr {
				return e.(Iface).V, true
			}
		}
		return e, true
	}
	for _, n := range []string{"New", "Errorf", "Wrap", "WrapPrefix"} {
		m["github.com/go-errors/errors."+n] = newErr
	}
	m["errors.New"] = newErr
	m["fmt.Errorf"] = newErr
	m["(*github.com/go-errors/errors.Error).Error"] = func(ex *Exec, fn *ssa.Function, args []Value) (Value, bool) {
		return "<error>", true
	}
	m["strings.Join"] = func(ex *Exec, fn *ssa.Function, args []Value) (Value, bool) {
		sl := args[0].(Slice)
		sep, ok := args[1].(string)
		if !ok {
			return nil, false
		}
		parts := make([]string, sl.Len)
		for i := range parts {
			p, ok := ex.load(sl.A.E[sl.Off+i]).(string)
			if !ok {
				return nil, false
			}
			parts[i] = p
		}
		return strings.Join(parts, sep), true
	}
	m["fmt.Sprintf"] = func(ex *Exec, fn *ssa.Function, args []Value) (Value, bool) {
		format, ok := args[0].(string)
		if !ok {
			return "<fmt>", true
		}
		va := args[1].(Slice)
		goargs := make([]interface{}, va.Len)
		for k := 0; k < va.Len; k++ {
			iv := ex.load(va.A.E[va.Off+k]).(Iface)
			switch x := iv.V.(type) {
			case string:
				goargs[k] = x
			case *smt.Term:
				if x.Sort == smt.Bool {
					if x.IsConst() {
						goargs[k] = x.B
					} else {
						goargs[k] = "<sym>"
					}
				} else if c, ok := x.ConstInt64(); ok {
					goargs[k] = c
				} else if strings.Contains(format, "%d") && x.Lo != nil && x.Hi != nil {
					goargs[k] = int64(ex.concretize(x, "fmt.Sprintf argument"))
				} else {
					goargs[k] = "<sym>"
				}
			default:
				goargs[k] = describe(iv)
			}
		}
		return fmt.Sprintf(format, goargs...), true
	}
	m["strconv.Atoi"] = func(ex *Exec, fn *ssa.Function, args []Value) (Value, bool) {
		str, ok := args[0].(string)
		if !ok {
			ex.unsupported("strconv.Atoi of a symbolic string")
		}
		v, err := strconv.Atoi(str)
		if err != nil {
			return Tuple{smt.I64(0), ex.freshError("strconv.Atoi")}, true
		}
		return Tuple{smt.I64(int64(v)), Iface{}}, true
	}
	m["strconv.Itoa"] = func(ex *Exec, fn *ssa.Function, args []Value) (Value, bool) {
		v, ok := term(args[0]).ConstInt64()
		if !ok {
			ex.unsupported("strconv.Itoa of a symbolic int")
		}
		return strconv.Itoa(int(v)), true
	}
	m["fmt.Sprint"] = func(ex *Exec, fn *ssa.Function, args []Value) (Value, bool) { return "<fmt>", true }
	for _, n := range []string{"fmt.Println", "fmt.Printf", "fmt.Print", "fmt.Fprintf", "fmt.Fprintln"} {
		m[n] = noop
	}
	// time
	m["time.Now"] = func(ex *Exec, fn *ssa.Function, args []Value) (Value, bool) {
		lo, hi := intKind{true, 64}.bounds()
		t := ex.freshInt("now", lo, hi)
		if ex.lastNow != nil {
			ex.assume(smt.Ge(t, ex.lastNow))
		}
		ex.lastNow = t
		return &Opaque{Kind: "time.Time", Data: t}, true
	}
	m["time.Unix"] = func(ex *Exec, fn *ssa.Function, args []Value) (Value, bool) {
		return &Opaque{Kind: "time.Time", Data: term(args[0])}, true
	}
	m["(time.Time).Unix"] = func(ex *Exec, fn *ssa.Function, args []Value) (Value, bool) {
		o := args[0].(*Opaque)
		if t, ok := o.Data.(*smt.Term); ok {
			return t, true
		}
		return smt.I64(0), true
	}
	// randomness helpers of gabi that are not under test themselves
	m[commonPkg+".RandomPrimeInRange"] = func(ex *Exec, fn *ssa.Function, args []Value) (Value, bool) {
		if ex.Ob.Param("real_randomprime", 0) == 1 {
			return nil, false
		}
		start := ex.uintArg(args[1], "RandomPrimeInRange start", 0)
		length := ex.uintArg(args[2], "RandomPrimeInRange length", 0)
		lo := smt.Pow2Big(start)
		hi := new(big.Int).Add(lo, smt.Pow2Big(length))
		e := ex.freshInt("prime", lo, hi)
		ex.assumePrime(e)
		ex.draws = append(ex.draws, e)
		return Tuple{ex.newBig(BigVal{I: e, Factors: []*smt.Term{e}, Tag: e.Name}), Iface{}}, true
	}
	m[TargetModule+".randomElementMultiplicativeGroup"] = func(ex *Exec, fn *ssa.Function, args []Value) (Value, bool) {
		mod := ex.argBig(args[0], "randomElementMultiplicativeGroup")
		r := ex.freshInt("rand", big.NewInt(1), mod.I.Hi)
		ex.assume(smt.Lt(r, mod.I))
		ex.draws = append(ex.draws, r)
		return Tuple{ex.newBig(BigVal{I: r, Tag: r.Name}), Iface{}}, true
	}
	// SumFourSquares: stubbed by its contract (the algorithm itself is C19 territory):
	// four non-negative integers whose squares sum to n, each at most sqrt(n)
	m[commonPkg+".SumFourSquares"] = func(ex *Exec, fn *ssa.Function, args []Value) (Value, bool) {
		if ex.Ob.Param("real_foursquares", 0) == 1 {
			return nil, false
		}
		n := ex.argBig(args[0], "SumFourSquares")
		if v, ok := n.I.ConstInt(); ok && v.Sign() == 0 {
			return Tuple{ex.newBig(bigConst(0)), ex.newBig(bigConst(0)), ex.newBig(bigConst(0)), ex.newBig(bigConst(0))}, true
		}
		var hi *big.Int
		if n.I.Hi != nil && n.I.Hi.Sign() >= 0 {
			hi = new(big.Int).Sqrt(n.I.Hi)
		}
		sum := smt.I64(0)
		out := make(Tuple, 4)
		for i := 0; i < 4; i++ {
			d := ex.freshInt("sq", big.NewInt(0), hi)
			sum = smt.Add(sum, smt.Mul(d, d))
			out[i] = ex.newBig(BigVal{I: d})
		}
		ex.assume(smt.Eq(sum, n.I))
		return out, true
	}
	// sumFourSquaresSpecial (the randomised Rabin-Shallit core, not encodable) by its contract, for the
	// obligation about the reduction steps around it: precondition n = 2 (mod 4); four non-negative
	// integers whose squares sum to n
	m[commonPkg+".sumFourSquaresSpecial"] = func(ex *Exec, fn *ssa.Function, args []Value) (Value, bool) {
		if ex.Ob.Param("stub_special", 0) == 0 {
			return nil, false
		}
		n := ex.argBig(args[0], "sumFourSquaresSpecial")
		ex.panicIf(smt.Not(smt.Eq(smt.Mod(n.I, smt.I64(4)), smt.I64(2))), "sumFourSquaresSpecial called with an argument that is not 2 modulo 4 (its precondition)")
		// the base case (n < 4, i.e. n = 2) involves no randomised search: the real code runs
		// (a free choice with the assumption on the real side only: the contract side keeps the path
		// condition it always had - the contract holds for the base case too)
		if ex.feasible(smt.Lt(n.I, smt.I64(4))) && ex.branch(smt.Var(ex.fresh("realBaseCase"), smt.Bool, nil, nil)) {
			ex.assume(smt.Lt(n.I, smt.I64(4)))
			return nil, false
		}
		var hi *big.Int
		if n.I.Hi != nil && n.I.Hi.Sign() >= 0 {
			hi = new(big.Int).Sqrt(n.I.Hi)
		}
		sum := smt.I64(0)
		out := make(Tuple, 4)
		for i := 0; i < 4; i++ {
			d := ex.freshInt("sq", big.NewInt(0), hi)
			sum = smt.Add(sum, smt.Mul(d, d))
			out[i] = ex.newBig(BigVal{I: d})
		}
		ex.assume(smt.Eq(sum, n.I))
		ex.stubs["sumFourSquaresSpecial replaced by its contract for arguments of 4 and more (the base case runs from its code): for n = 2 (mod 4), four non-negative integers whose squares sum to n"] = true
		return out, true
	}
	m[commonPkg+".ModInverse"] = func(ex *Exec, fn *ssa.Function, args []Value) (Value, bool) {
		a, n := ex.argBig(args[0], "ModInverse"), ex.argBig(args[1], "ModInverse")
		if k := ex.modKind(n.I); k == "order" || k == "group" {
			r, ok := ex.bigModInverse(a, n)
			if !ok {
				return Tuple{Pointer{}, smt.False}, true
			}
			return Tuple{ex.newBig(r), smt.True}, true
		}
		return nil, false
	}
	m[commonPkg+".HashCommit"] = func(ex *Exec, fn *ssa.Function, args []Value) (Value, bool) {
		if ex.Ob.Param("real_hashcommit", 0) == 1 {
			return nil, false
		}
		vals := args[0].(Slice)
		hargs := []BigVal{{I: smt.Ite(term(args[1]), smt.I64(1), smt.I64(0))}}
		for k := 0; k < vals.Len; k++ {
			hargs = append(hargs, ex.argBig(ex.load(vals.A.E[vals.Off+k]), "HashCommit value"))
		}
		return ex.newBig(BigVal{I: ex.hashApply("HashCommit", hargs, 256)}), true
	}
	m[commonPkg+".IntHashSha256"] = func(ex *Exec, fn *ssa.Function, args []Value) (Value, bool) {
		if ex.Ob.Param("real_inthash", 0) == 1 {
			return nil, false
		}
		s := args[0].(Slice)
		var hargs []BigVal
		if s.A != nil {
			if b, ok := ex.blobs[s.A]; ok {
				hargs = []BigVal{{I: b.I}}
			}
		}
		if hargs == nil {
			hargs = []BigVal{{I: smt.I64(int64(s.Len))}}
			for k := 0; k < s.Len; k++ {
				hargs = append(hargs, BigVal{I: term(ex.load(s.A.E[s.Off+k]))})
			}
			return ex.newBig(BigVal{I: ex.hashApply("sha256bytes", hargs, 256)}), true
		}
		return ex.newBig(BigVal{I: ex.hashApply("sha256big", hargs, 256)}), true
	}
	// logging
	for name := range P.Pkgs {
		if name == "github.com/sirupsen/logrus" {
			for _, mem := range P.Pkgs[name].Members {
				if f, ok := mem.(*ssa.Function); ok {
					m[f.String()] = noop
				}
				if t, ok := mem.(*ssa.Type); ok {
					for _, ty := range []types.Type{t.Type(), types.NewPointer(t.Type())} {
						ms := P.Prog.MethodSets.MethodSet(ty)
						for k := 0; k < ms.Len(); k++ {
							if f := P.Prog.MethodValue(ms.At(k)); f != nil {
								m[f.String()] = noop
							}
						}
					}
				}
			}
		}
	}
	// sync/atomic on plain cells
	for _, ty := range []struct {
		name   string
		signed bool
		bits   uint
	}{{"Uint64", false, 64}, {"Int64", true, 64}, {"Uint32", false, 32}, {"Int32", true, 32}} {
		ty := ty
		m["sync/atomic.Add"+ty.name] = func(ex *Exec, fn *ssa.Function, args []Value) (Value, bool) {
			p := args[0].(Pointer)
			ex.yieldPoint(&access{c: p.C, write: true, atomic: true}, nil)
			v := smt.Wrap(smt.Add(term(p.C.V), term(args[1])), ty.signed, ty.bits)
			p.C.V = v
			return v, true
		}
		m["sync/atomic.Load"+ty.name] = func(ex *Exec, fn *ssa.Function, args []Value) (Value, bool) {
			p := args[0].(Pointer)
			ex.yieldPoint(&access{c: p.C, atomic: true}, nil)
			return p.C.V, true
		}
		m["sync/atomic.Store"+ty.name] = func(ex *Exec, fn *ssa.Function, args []Value) (Value, bool) {
			p := args[0].(Pointer)
			ex.yieldPoint(&access{c: p.C, write: true, atomic: true}, nil)
			p.C.V = args[1]
			return nil, true
		}
		m["sync/atomic.Swap"+ty.name] = func(ex *Exec, fn *ssa.Function, args []Value) (Value, bool) {
			p := args[0].(Pointer)
			ex.yieldPoint(&access{c: p.C, write: true, atomic: true}, nil)
			old := p.C.V
			p.C.V = args[1]
			return old, true
		}
		m["sync/atomic.CompareAndSwap"+ty.name] = func(ex *Exec, fn *ssa.Function, args []Value) (Value, bool) {
			p := args[0].(Pointer)
			ex.yieldPoint(&access{c: p.C, write: true, atomic: true}, nil)
			if ex.branch(smt.Eq(term(p.C.V), term(args[1]))) {
				p.C.V = args[2]
				return smt.True, true
			}
			return smt.False, true
		}
	}
	// sort.Slice / sort.SliceStable: insertion sort driven by the caller's less function (a stable order,
	// which is one of the orders sort.Slice may produce)
	sortModel := func(ex *Exec, fn *ssa.Function, args []Value) (Value, bool) {
		i0, ok := args[0].(Iface)
		if !ok {
			return nil, false
		}
		sl, ok := i0.V.(Slice)
		if !ok {
			ex.unsupported("sort.Slice of %T", i0.V)
		}
		less := args[1]
		for i := 1; i < sl.Len; i++ {
			for j := i; j > 0; j-- {
				r := ex.callValue(less, []Value{smt.I64(int64(j)), smt.I64(int64(j - 1))})
				if !ex.branch(term(r)) {
					break
				}
				a, b := sl.A.E[sl.Off+j], sl.A.E[sl.Off+j-1]
				va, vb := ex.load(a), ex.load(b)
				ex.store(a, vb)
				ex.store(b, va)
			}
		}
		return nil, true
	}
	m["sort.Slice"] = sortModel
	m["sort.SliceStable"] = sortModel
	// sync.Map: an association list in the opaque zero value; keys are compared with == (symbolic keys fork)
	type smEntry struct{ k, v Value }
	smOf := func(ex *Exec, v Value) *[]smEntry {
		p, ok := v.(Pointer)
		if !ok || p.C == nil {
			ex.goPanic("nil pointer dereference (sync.Map)")
		}
		o, ok := p.C.V.(*Opaque)
		if !ok {
			ex.unsupported("sync.Map stored as %T", p.C.V)
		}
		if o.Data == nil {
			o.Data = &[]smEntry{}
		}
		return o.Data.(*[]smEntry)
	}
	smFind := func(ex *Exec, es *[]smEntry, k Value) int {
		for i, e := range *es {
			if ex.branch(ex.valEq(e.k, k)) {
				return i
			}
		}
		return -1
	}
	m["(*sync.Map).LoadOrStore"] = func(ex *Exec, fn *ssa.Function, args []Value) (Value, bool) {
		ex.yieldPoint(nil, nil)
		es := smOf(ex, args[0])
		if i := smFind(ex, es, args[1]); i >= 0 {
			return Tuple{(*es)[i].v, smt.True}, true
		}
		*es = append(*es, smEntry{args[1], args[2]})
		return Tuple{args[2], smt.False}, true
	}
	m["(*sync.Map).Load"] = func(ex *Exec, fn *ssa.Function, args []Value) (Value, bool) {
		ex.yieldPoint(nil, nil)
		es := smOf(ex, args[0])
		if i := smFind(ex, es, args[1]); i >= 0 {
			return Tuple{(*es)[i].v, smt.True}, true
		}
		return Tuple{Iface{}, smt.False}, true
	}
	m["(*sync.Map).Store"] = func(ex *Exec, fn *ssa.Function, args []Value) (Value, bool) {
		ex.yieldPoint(nil, nil)
		es := smOf(ex, args[0])
		if i := smFind(ex, es, args[1]); i >= 0 {
			(*es)[i].v = args[2]
			return nil, true
		}
		*es = append(*es, smEntry{args[1], args[2]})
		return nil, true
	}
	m["(*sync.Map).Delete"] = func(ex *Exec, fn *ssa.Function, args []Value) (Value, bool) {
		ex.yieldPoint(nil, nil)
		es := smOf(ex, args[0])
		if i := smFind(ex, es, args[1]); i >= 0 {
			*es = append((*es)[:i], (*es)[i+1:]...)
		}
		return nil, true
	}
	// sync primitives (state kept in the opaque zero value of the object)
	syncObj := func(ex *Exec, v Value) *Opaque {
		p, ok := v.(Pointer)
		if !ok || p.C == nil {
			ex.goPanic("nil pointer dereference (sync primitive)")
		}
		o, ok := p.C.V.(*Opaque)
		if !ok {
			ex.unsupported("sync primitive stored as %T", p.C.V)
		}
		if o.Data == nil {
			o.Data = new(int)
		}
		return o
	}
	m["(*sync.WaitGroup).Add"] = func(ex *Exec, fn *ssa.Function, args []Value) (Value, bool) {
		o := syncObj(ex, args[0])
		d, ok := term(args[1]).ConstInt64()
		if !ok {
			ex.unsupported("WaitGroup.Add with symbolic delta")
		}
		ex.yieldPoint(nil, nil)
		*(o.Data.(*int)) += int(d)
		if *(o.Data.(*int)) < 0 {
			ex.goPanic("sync: negative WaitGroup counter")
		}
		return nil, true
	}
	m["(*sync.WaitGroup).Done"] = func(ex *Exec, fn *ssa.Function, args []Value) (Value, bool) {
		o := syncObj(ex, args[0])
		ex.yieldPoint(nil, nil)
		*(o.Data.(*int))--
		if *(o.Data.(*int)) < 0 {
			ex.goPanic("sync: negative WaitGroup counter")
		}
		return nil, true
	}
	m["(*sync.WaitGroup).Wait"] = func(ex *Exec, fn *ssa.Function, args []Value) (Value, bool) {
		o := syncObj(ex, args[0])
		ex.yieldPoint(nil, func() bool { return *(o.Data.(*int)) == 0 })
		return nil, true
	}
	m["(*sync.Mutex).Lock"] = func(ex *Exec, fn *ssa.Function, args []Value) (Value, bool) {
		o := syncObj(ex, args[0])
		ex.yieldPoint(nil, func() bool { return *(o.Data.(*int)) == 0 })
		*(o.Data.(*int)) = 1
		return nil, true
	}
	m["(*sync.Mutex).Unlock"] = func(ex *Exec, fn *ssa.Function, args []Value) (Value, bool) {
		o := syncObj(ex, args[0])
		if *(o.Data.(*int)) == 0 {
			ex.goPanic("sync: unlock of unlocked mutex")
		}
		*(o.Data.(*int)) = 0
		ex.yieldPoint(nil, nil)
		return nil, true
	}
	m["(*sync.Once).Do"] = func(ex *Exec, fn *ssa.Function, args []Value) (Value, bool) {
		o := syncObj(ex, args[0])
		// 0: not run, 1: running (others wait), 2: done
		ex.yieldPoint(nil, func() bool { return *(o.Data.(*int)) != 1 })
		if *(o.Data.(*int)) == 0 {
			*(o.Data.(*int)) = 1
			ex.callValue(args[1], nil)
			*(o.Data.(*int)) = 2
			ex.yieldPoint(nil, nil)
		}
		return nil, true
	}
	m["runtime.NumCPU"] = func(ex *Exec, fn *ssa.Function, args []Value) (Value, bool) {
		return smt.I64(int64(ex.Ob.Param("procs", 4))), true
	}
	m["runtime.GOMAXPROCS"] = func(ex *Exec, fn *ssa.Function, args []Value) (Value, bool) {
		return smt.I64(int64(ex.Ob.Param("procs", 4))), true
	}
	registerExtraModels(P)
}

// wireCopy is the structural model of a JSON round trip (json.Marshal at the sender, json.Unmarshal into
// a fresh value at the receiver) for plain structs: it follows the struct tags read from the program's
// types - unexported fields and fields tagged json:"-" do not travel and arrive as zero values - and copies
// pointers, maps, slices and big integers deeply. gabi's big.Int refuses negative numbers in its text
// encodings: *failed is set. Types with their own (Un)MarshalJSON are not modelled (fail closed).
func (ex *Exec) wireCopy(v Value, t types.Type, failed **smt.Term) Value {
	if isBigIntType(t) {
		b, ok := v.(BigVal)
		if !ok {
			ex.unsupported("wire copy of %T as big integer", v)
		}
		*failed = smt.Or(*failed, smt.Lt(b.I, smt.I64(0)))
		return BigVal{I: b.I, G: b.G, E: b.E, Factors: b.Factors}
	}
	if n, ok := types.Unalias(t).(*types.Named); ok && n.Obj().Pkg() != nil && n.Obj().Pkg().Path() == "time" && n.Obj().Name() == "Time" {
		return v // time.Time travels as RFC 3339 text: value preserving
	}
	if n, ok := types.Unalias(t).(*types.Named); ok && n.Obj().Pkg() != nil && n.Obj().Name() == "Hash" && strings.HasSuffix(n.Obj().Pkg().Path(), "/revocation") {
		// revocation.Hash travels as the text form of its bytes: value preserving
		return ex.wireCopy(v, t.Underlying(), failed)
	}
	if n, ok := types.Unalias(t).(*types.Named); ok && n.Obj().Pkg() != nil {
		for _, m := range []string{"UnmarshalJSON", "MarshalJSON"} {
			for _, recv := range []types.Type{t, types.NewPointer(t)} {
				if obj, _, _ := types.LookupFieldOrMethod(recv, true, n.Obj().Pkg(), m); obj != nil {
					if _, isFunc := obj.(*types.Func); isFunc {
						ex.unsupported("wire copy of %s, which has its own %s", t, m)
					}
				}
			}
		}
	}
	switch u := t.Underlying().(type) {
	case *types.Basic:
		return v
	case *types.Pointer:
		p := v.(Pointer)
		if p.C == nil {
			return Pointer{}
		}
		return Pointer{C: ex.cellOf(ex.wireCopy(ex.load(p.C), u.Elem(), failed))}
	case *types.Struct:
		sv := v.(*Struct)
		out := &Struct{F: make([]Value, len(sv.F))}
		for i := range sv.F {
			f := u.Field(i)
			tag := reflect.StructTag(u.Tag(i)).Get("json")
			name := strings.Split(tag, ",")[0]
			if !f.Exported() || name == "-" {
				out.F[i] = ex.zero(f.Type())
				continue
			}
			out.F[i] = ex.wireCopy(sv.F[i], f.Type(), failed)
		}
		return out
	case *types.Slice:
		sl := v.(Slice)
		if sl.A == nil {
			return Slice{}
		}
		out := ex.makeSlice(u.Elem(), sl.Len, sl.Len)
		for i := 0; i < sl.Len; i++ {
			ex.store(out.A.E[i], ex.wireCopy(ex.load(sl.A.E[sl.Off+i]), u.Elem(), failed))
		}
		if sl.Off == 0 && sl.Len == len(sl.A.E) {
			// byte strings that stand for modelled objects (signed messages, digests, encodings) keep their meaning
			if sm, ok := ex.signedMsgs[sl.A]; ok {
				ex.signedMsgs[out.A] = sm
			}
			if d, ok := ex.digests[sl.A]; ok {
				ex.digests[out.A] = d
			}
			if b, ok := ex.blobs[sl.A]; ok {
				ex.blobs[out.A] = b
			}
			if b, ok := ex.derBlobs[sl.A]; ok {
				ex.derBlobs[out.A] = b
			}
		}
		return out
	case *types.Map:
		m, _ := v.(*Map)
		if m == nil {
			return (*Map)(nil)
		}
		out := &Map{}
		for _, e := range m.E {
			out.E = append(out.E, &MapEntry{K: e.K, C: ex.cellOf(ex.wireCopy(ex.load(e.C), u.Elem(), failed))})
		}
		return out
	}
	ex.unsupported("wire copy of %s", t)
	return nil
}

func (ex *Exec) primExt(fn *ssa.Function, args []Value) (Value, bool) {
	name := fn.Name()
	if strings.HasPrefix(name, "vpxWire") {
		name = "vpxWire"
	}
	switch name {
	case "vpxWire":
		// vpxWire<Type>(in *T) (*T, bool): the value as it arrives after a JSON round trip; false if encoding fails
		failed := smt.False
		out := ex.wireCopy(args[0], fn.Signature.Params().At(0).Type(), &failed)
		ex.stubs["JSON transport is a structural copy that follows the struct tags of the current source (fields tagged json:\"-\" and unexported fields do not travel; negative big integers are refused); byte-level encoding is not modelled"] = true
		return Tuple{out, smt.Not(failed)}, true
	case "vpxSetECDSA":
		id, _ := term(args[2]).ConstInt64()
		mk := func(kind string) Value {
			ex.cellSeq++
			return Pointer{C: &Cell{ID: ex.cellSeq, V: &Opaque{Kind: kind, Data: int(id)}}}
		}
		pk := args[0].(Pointer).C.V.(*StructObj)
		sk := args[1].(Pointer).C.V.(*StructObj)
		// locate the ECDSA fields by type
		setField := func(so *StructObj, t types.Type, v Value) {
			st := t.Underlying().(*types.Struct)
			for i := 0; i < st.NumFields(); i++ {
				if st.Field(i).Name() == "ECDSA" {
					so.F[i].V = v
				}
			}
		}
		setField(pk, fn.Signature.Params().At(0).Type().(*types.Pointer).Elem(), mk("ecdsa.PublicKey"))
		setField(sk, fn.Signature.Params().At(1).Type().(*types.Pointer).Elem(), mk("ecdsa.PrivateKey"))
		return nil, true
	case "vpxSpecDigest":
		// reference: SHA-256(DER(SEQUENCE{ [TRUE,] count, values... })) as an unsigned integer
		vals := args[0].(Slice)
		var es []derElem
		issig := term(args[1])
		if issig.IsTrue() {
			es = append(es, derElem{"bool", smt.I64(1)})
		} else if !issig.IsFalse() {
			panic("vpxSpecDigest needs a concrete session flag (branch on it in the harness)")
		}
		es = append(es, derElem{"int", smt.I64(int64(vals.Len))})
		for k := 0; k < vals.Len; k++ {
			es = append(es, derElem{"int", ex.argBig(ex.load(vals.A.E[vals.Off+k]), "vpxSpecDigest").I})
		}
		return ex.newBig(BigVal{I: ex.specDigest(es)}), true
	case "vpxFsSetup":
		// (name, exists bool, mode int, umask int): symbolic pre-state of the file system
		name := ex.str(args[0])
		f := ex.fsGet(name)
		f.Exists = term(args[1])
		f.Mode = term(args[2])
		f.HasData = smt.False
		ex.umaskT = term(args[3])
		f.Link = smt.And(f.Exists, term(args[4]))
		return name, true
	case "vpxKeyXML":
		n, _ := term(args[0]).ConstInt64()
		return fmt.Sprintf("VPKEYXML:%d", n), true
	case "vpxFlawedKeyXML":
		n, _ := term(args[0]).ConstInt64()
		f, _ := term(args[1]).ConstInt64()
		return fmt.Sprintf("VPKEYXML:%d:%d", n, f), true
	case "vpxPrivKeyXML":
		f, _ := term(args[0]).ConstInt64()
		return fmt.Sprintf("VPSKXML:%d", f), true
	case "vpxWriteTemp":
		name := fmt.Sprintf("/vp/tmp%d", len(ex.fileContent))
		ex.fileContent[name] = ex.str(args[0])
		return name, true
	case "vpxFsDone":
		return nil, true
	case "vpxFsMode":
		return ex.fsGet(ex.str(args[0])).Mode, true
	case "vpxFsHasData":
		return ex.fsGet(ex.str(args[0])).HasData, true
	case "vpxFsExists":
		return ex.fsGet(ex.str(args[0])).Exists, true
	case "vpxPrimeNear":
		b := ex.argBig(args[0], "vpxPrimeNear")
		ex.assumePrime(b.I)
		return ex.newBig(BigVal{I: b.I, Factors: []*smt.Term{b.I}}), true
	case "vpxCorrupt":
		sl := args[0].(Slice)
		if sl.A == nil {
			return sl, true
		}
		sm := ex.signedMsgs[sl.A]
		if sm == nil {
			return sl, true
		}
		a := &ArrObj{E: []*Cell{ex.cellOf(smt.I64(0))}}
		ex.signedMsgs[a] = &SignedMsg{Key: sm.Key, Valid: smt.False, Payload: sm.Payload}
		return Slice{A: a, Len: 1, Cap: 1}, true
	}
	return nil, false
}
