package sx

import (
	"fmt"
	"go/token"
	"os"
	"path/filepath"
	"runtime/debug"
	"sort"
	"strings"
	"sync"
	"sync/atomic"
	"time"

	"gabiverif/smt"

	"golang.org/x/tools/go/packages"
	"golang.org/x/tools/go/ssa"
	"golang.org/x/tools/go/ssa/ssautil"
)

const TargetModule = "github.com/privacybydesign/gabi"

type ModelFn func(ex *Exec, fn *ssa.Function, args []Value) (Value, bool)

type Program struct {
	Prog   *ssa.Program
	Fset   *token.FileSet
	Pkgs   map[string]*ssa.Package
	models map[string]ModelFn

	QuickSolver   string
	QuickLimit    time.Duration
	QuickFallback bool
	FinalLimit    time.Duration
	inconclN      int32 // inconclusive solver answers in the running obligation (fail fast, see tooManyInconclusive)
	deadline      int64 // unix nanoseconds after which the running obligation is abandoned (wall-clock budget)
	MaxSteps      int
	Workers       int

	cache sync.Map
	// distinct final queries answered (key -> result)
	finalMu              sync.Mutex
	finals               map[string]smt.Result
	branchQ, branchUnsat int
}

func (p *Program) cacheGet(k string) (smt.Result, bool) {
	v, ok := p.cache.Load(k)
	if !ok {
		return smt.Unknown, false
	}
	return v.(smt.Result), true
}
func (p *Program) cachePut(k string, r smt.Result) { p.cache.Store(k, r) }

func (p *Program) isTarget(path string) bool {
	return path == TargetModule || strings.HasPrefix(path, TargetModule+"/")
}

var allowedPkgs = map[string]bool{
	"slices": true, "sort": true, "strings": true, "strconv": true, "encoding/binary": true,
	"unicode/utf8": true, "bytes": true, "math/bits": true, "internal/bytealg": false,
	"cmp": true, "maps": true, "internal/stringslite": true, "unicode": true,
	"crypto/subtle": true, "internal/byteorder": true, "crypto/internal/fips140/subtle": true,
	"crypto/internal/constanttime": true, "io/fs": true, "io": true, "sync/atomic": true,
	"encoding/base64": true,
}

func (p *Program) allowed(path string) bool { return allowedPkgs[path] }

// Load type-checks /repo with the harness overlay and builds SSA.
func Load(repo string, overlay map[string][]byte) (*Program, error) {
	cfg := &packages.Config{
		Mode:    packages.LoadAllSyntax,
		Dir:     repo,
		Overlay: overlay,
		Env:     append(os.Environ(), "GOFLAGS=-mod=mod", "GOPROXY=off", "GOSUMDB=off", "GOTOOLCHAIN=local"),
	}
	pkgs, err := packages.Load(cfg, "./...")
	if err != nil {
		return nil, err
	}
	var errs []string
	packages.Visit(pkgs, nil, func(p *packages.Package) {
		for _, e := range p.Errors {
			errs = append(errs, e.Error())
		}
	})
	if len(errs) > 0 {
		return nil, fmt.Errorf("load errors:\n%s", strings.Join(errs, "\n"))
	}
	prog, _ := ssautil.AllPackages(pkgs, ssa.InstantiateGenerics)
	prog.Build()
	P := &Program{Prog: prog, Fset: prog.Fset, Pkgs: map[string]*ssa.Package{},
		models: map[string]ModelFn{}, QuickSolver: "z3-new", QuickLimit: 2 * time.Second,
		QuickFallback: true, FinalLimit: 30 * time.Second, MaxSteps: 2000000, Workers: 16,
		finals: map[string]smt.Result{}}
	for _, sp := range prog.AllPackages() {
		P.Pkgs[sp.Pkg.Path()] = sp
	}
	registerModels(P)
	return P, nil
}

type SourceOverride struct {
	File string `json:"file"`
	Old  string `json:"old"`
	New  string `json:"new"`
}

type Obligation struct {
	Prop        string   `json:"prop"`
	Name        string   `json:"name"`
	Pkg         string   `json:"pkg"`  // import path relative to the module ("" = root)
	Func        string   `json:"func"` // harness function
	Tier        string   `json:"tier"` // "quick" (also run in thorough) or "thorough"
	Unwind      int      `json:"unwind"`
	MaxPaths    int      `json:"maxpaths"`
	Asserts     []string `json:"asserts"`      // labels that must be reached on a satisfiable path
	AllowPanic  bool     `json:"allow_panic"`  // reachable panics are not findings
	AllowUnwind bool     `json:"allow_unwind"` // paths cut at the unwinding bound are a stated bound, not a failure
	Expect      string   `json:"expect"`       // "" (must hold) | documentation only
	Note        string   `json:"note"`
	FinalLimitS int      `json:"final_limit_s"`
	// thorough-only overrides
	Params         map[string]int `json:"params"`
	ThoroughParams map[string]int `json:"thorough_params"`
	Merge          []string       `json:"merge"` // side-effect-free callees whose paths are merged into ite terms
	// SourceOverrides: literal single-occurrence replacements in /repo source files, applied in the overlay for the
	// symbolic run and the native replays of this property (used to shrink iteration-count constants: a stated bound)
	SourceOverrides []SourceOverride `json:"source_overrides"`
	mergeM          map[string]bool
	tierRun         string
}

func (o *Obligation) mergeSet() map[string]bool {
	if o.mergeM == nil {
		o.mergeM = map[string]bool{}
		for _, m := range o.Merge {
			o.mergeM[m] = true
		}
	}
	return o.mergeM
}

func (o *Obligation) unwind() int {
	if o == nil || o.Unwind == 0 {
		return 64
	}
	return o.Unwind
}

func (o *Obligation) Param(name string, def int) int {
	if o.tierRun == "thorough" {
		if v, ok := o.ThoroughParams[name]; ok {
			return v
		}
	}
	if v, ok := o.Params[name]; ok {
		return v
	}
	return def
}

type PathResult struct {
	End      pathEnd
	Findings []*Finding
	Alts     [][]int
	Taken    []int
	Reached  map[string]bool
	Funcs    map[string]bool
	Stubs    map[string]bool
	Inconcl  []string
	Asserts  map[string]int
	NFinal   int
	Samples  []string
	Steps    int
}

type ObResult struct {
	Ob          *Obligation
	Paths       int
	Ends        map[string]int
	EndSamples  map[string][]string
	Findings    []*Finding
	Reached     map[string]bool
	Funcs       map[string]bool
	Stubs       map[string]bool
	Inconcl     []string
	Asserts     map[string]int
	FinalQ      int
	Nontrivial  int
	Samples     []string
	Budget      bool
	Aborted     bool // stopped early: too many inconclusive answers or wall-clock budget used up
	Decisions   int
	WallS       float64
	InternalErr []string
}

func (p *Program) harnessFn(ob *Obligation) (*ssa.Function, error) {
	path := TargetModule
	if ob.Pkg != "" {
		path += "/" + ob.Pkg
	}
	sp := p.Pkgs[path]
	if sp == nil {
		return nil, fmt.Errorf("package %s not loaded", path)
	}
	fn := sp.Func(ob.Func)
	if fn == nil {
		return nil, fmt.Errorf("harness %s not found in %s", ob.Func, path)
	}
	return fn, nil
}

// initOrder lists target packages in dependency order.
func (p *Program) initOrder(root *ssa.Package) []*ssa.Package {
	var out []*ssa.Package
	seen := map[string]bool{}
	var visit func(sp *ssa.Package)
	visit = func(sp *ssa.Package) {
		if seen[sp.Pkg.Path()] {
			return
		}
		seen[sp.Pkg.Path()] = true
		imps := sp.Pkg.Imports()
		sort.Slice(imps, func(i, j int) bool { return imps[i].Path() < imps[j].Path() })
		for _, im := range imps {
			if p.isTarget(im.Path()) {
				if q := p.Pkgs[im.Path()]; q != nil {
					visit(q)
				}
			}
		}
		out = append(out, sp)
	}
	visit(root)
	return out
}

func (p *Program) newExec(ob *Obligation, prefix []int) *Exec {
	return &Exec{P: p, Ob: ob, decisions: prefix, globals: map[*ssa.Global]*Cell{},
		freshSeq: map[string]int{}, groupIv: map[string]*smt.Term{}, modKinds: map[int]*ModInfo{},
		atoms: map[string]bool{}, assertsSeen: map[string]int{}, reached: map[string]bool{},
		funcs: map[string]bool{}, stubs: map[string]bool{}, native: map[string]interface{}{},
		blobs: map[*ArrObj]BigVal{}, digests: map[*ArrObj]*smt.Term{}, signedMsgs: map[*ArrObj]*SignedMsg{}, derBlobs: map[*ArrObj][]derElem{}, fs: map[string]*fsFile{}, fileContent: map[string]string{}, u64: map[*Cell]u64tag{}, digestVals: map[*Array]*smt.Term{}, initDone: map[*ssa.Package]bool{},
		birth: map[string]int{}, maxBirthMemo: map[int]int{}, oracleSeen: map[int]bool{}}
}

func (p *Program) runPath(ob *Obligation, fn *ssa.Function, prefix []int) (res *PathResult) {
	ex := p.newExec(ob, prefix)
	res = &PathResult{}
	defer func() {
		if r := recover(); r != nil {
			if pe, ok := r.(*pathEnd); ok {
				res.End = *pe
			} else {
				res.End = pathEnd{Kind: EndUnsupported, Msg: fmt.Sprintf("INTERNAL: %v\n%s", r, trimStack(debug.Stack())), Pos: ex.curPos}
			}
		}
		ex.killThreads()
		if res.End.Kind == EndPanic && !ob.AllowPanic && !ex.inInit {
			ex.reportPanic(res.End)
		}
		res.Findings = ex.findings
		res.Alts = ex.alts
		res.Taken = ex.taken
		res.Reached = ex.reached
		res.Funcs = ex.funcs
		res.Stubs = ex.stubs
		res.Inconcl = ex.inconclusive
		res.Asserts = ex.assertsSeen
		res.NFinal = ex.nFinal
		res.Samples = ex.samples
		res.Steps = ex.steps
	}()
	// package initialisers of the target packages, in dependency order
	// package initialisers run lazily, on first access to a package's globals (see Exec.global)
	ex.callFunction(fn, nil)
	res.End = pathEnd{Kind: EndDone}
	return
}

func trimStack(b []byte) string {
	lines := strings.Split(string(b), "\n")
	var keep []string
	for _, l := range lines {
		if strings.Contains(l, "/engine/") {
			keep = append(keep, strings.TrimSpace(l))
		}
		if len(keep) > 12 {
			break
		}
	}
	return strings.Join(keep, " | ")
}

// interpretInit runs a package init function but skips calls to the init
// functions of non-target packages.
func (ex *Exec) interpretInit(init *ssa.Function) {
	ex.interpret(init, nil)
}

// RunObligation explores all paths of a harness.
func (p *Program) RunObligation(ob *Obligation, tier string) *ObResult {
	ob.tierRun = tier
	atomic.StoreInt32(&p.inconclN, 0)
	// wall-clock budget: a check has to end; an obligation that overruns is reported inconclusive
	wall := ob.Param("max_wall_s", 0)
	if wall == 0 {
		wall = 1500
		if tier == "thorough" {
			wall = 3 * 3600
		}
	}
	atomic.StoreInt64(&p.deadline, time.Now().Add(time.Duration(wall)*time.Second).UnixNano())
	smt.Distribute = ob.Param("expand", 0) == 1
	t0 := time.Now()
	r := &ObResult{Ob: ob, Ends: map[string]int{}, EndSamples: map[string][]string{}, Reached: map[string]bool{},
		Funcs: map[string]bool{}, Stubs: map[string]bool{}, Asserts: map[string]int{}}
	fn, err := p.harnessFn(ob)
	if err != nil {
		r.InternalErr = append(r.InternalErr, err.Error())
		return r
	}
	maxPaths := ob.MaxPaths
	if v := ob.Param("maxpaths", 0); v > 0 {
		maxPaths = v // (params / thorough_params may carry the path budget of a tier)
	}
	if maxPaths == 0 {
		maxPaths = 20000
	}
	if ob.FinalLimitS > 0 {
		p.FinalLimit = time.Duration(ob.FinalLimitS) * time.Second
	}
	var mu sync.Mutex
	queue := [][]int{nil}
	active := 0
	cond := sync.NewCond(&mu)
	var wg sync.WaitGroup
	worker := func() {
		defer wg.Done()
		for {
			mu.Lock()
			for len(queue) == 0 && active > 0 {
				cond.Wait()
			}
			if len(queue) == 0 && active == 0 {
				mu.Unlock()
				cond.Broadcast()
				return
			}
			pre := queue[len(queue)-1]
			queue = queue[:len(queue)-1]
			if p.tooManyInconclusive() {
				// fail fast: the obligation is inconclusive anyway, do not spend hours on solver time-outs
				r.Aborted = true
				queue = nil
				mu.Unlock()
				cond.Broadcast()
				continue
			}
			if r.Paths >= maxPaths {
				r.Budget = true
				queue = nil
				mu.Unlock()
				cond.Broadcast()
				continue
			}
			r.Paths++
			active++
			mu.Unlock()
			pr := p.runPath(ob, fn, pre)
			mu.Lock()
			active--
			k := pr.End.Kind.String()
			r.Ends[k]++
			if pr.End.Kind != EndDone && pr.End.Kind != EndAssume && len(r.EndSamples[k]) < 8 {
				s := pr.End.Msg + " @" + pr.End.Pos
				dup := false
				for _, o := range r.EndSamples[k] {
					if o == s {
						dup = true
					}
				}
				if !dup {
					r.EndSamples[k] = append(r.EndSamples[k], s)
				}
			}
			if strings.HasPrefix(pr.End.Msg, "INTERNAL") {
				r.InternalErr = append(r.InternalErr, pr.End.Msg+" @"+pr.End.Pos)
			}
			r.Findings = append(r.Findings, pr.Findings...)
			for k := range pr.Reached {
				r.Reached[k] = true
			}
			for k := range pr.Funcs {
				r.Funcs[k] = true
			}
			for k := range pr.Stubs {
				r.Stubs[k] = true
			}
			for k, v := range pr.Asserts {
				r.Asserts[k] += v
			}
			r.Inconcl = append(r.Inconcl, pr.Inconcl...)
			r.FinalQ += pr.NFinal
			r.Decisions += len(pr.Taken)
			if len(r.Samples) < 6 {
				r.Samples = append(r.Samples, pr.Samples...)
			}
			if !r.Budget {
				queue = append(queue, pr.Alts...)
			}
			mu.Unlock()
			cond.Broadcast()
		}
	}
	n := p.Workers
	wg.Add(n)
	for i := 0; i < n; i++ {
		go worker()
	}
	wg.Wait()
	r.WallS = time.Since(t0).Seconds()
	return r
}

const maxInconclusive = 12

func (p *Program) tooManyInconclusive() bool {
	return atomic.LoadInt32(&p.inconclN) >= maxInconclusive || time.Now().UnixNano() > atomic.LoadInt64(&p.deadline)
}

// ReadOverlay maps every file of harnessDir/<pkg>/ onto repo/<pkg>/.
func ReadOverlay(harnessDir, repo string) (map[string][]byte, map[string]string, error) {
	ov := map[string][]byte{}
	files := map[string]string{}
	err := filepath.Walk(harnessDir, func(path string, info os.FileInfo, err error) error {
		if err != nil || info.IsDir() || !strings.HasSuffix(path, ".go") {
			return err
		}
		rel, _ := filepath.Rel(harnessDir, path)
		if !strings.HasPrefix(filepath.Base(rel), "zz_vp") {
			return nil
		}
		b, err := os.ReadFile(path)
		if err != nil {
			return err
		}
		dst := filepath.Join(repo, rel)
		files[dst] = path
		if !strings.HasSuffix(path, "_test.go") {
			ov[dst] = b
		}
		return nil
	})
	return ov, files, err
}

func (p *Program) noteBranch(r smt.Result) {
	p.finalMu.Lock()
	p.branchQ++
	if r == smt.Unsat {
		p.branchUnsat++
	}
	p.finalMu.Unlock()
}

// BranchQueries returns the number of distinct branch-feasibility queries and how many were unsat.
func (p *Program) BranchQueries() (int, int) {
	p.finalMu.Lock()
	defer p.finalMu.Unlock()
	return p.branchQ, p.branchUnsat
}
