package sx

import (
	"fmt"
	"go/token"
	"math/big"

	"gabiverif/smt"

	"golang.org/x/tools/go/ssa"
)

func (ex *Exec) recvBig(args []Value, what string) *Cell {
	p, ok := args[0].(Pointer)
	if !ok {
		panic(fmt.Sprintf("%s: receiver is %T", what, args[0]))
	}
	if p.C == nil {
		ex.goPanic("nil pointer dereference (big.Int.%s on nil receiver)", what)
	}
	if _, ok := p.C.V.(BigVal); !ok {
		panic(fmt.Sprintf("%s: receiver cell holds %T", what, p.C.V))
	}
	return p.C
}

func (ex *Exec) argBig(v Value, what string) BigVal {
	p, ok := v.(Pointer)
	if !ok {
		panic(fmt.Sprintf("%s: operand is %T", what, v))
	}
	if p.C == nil {
		ex.goPanic("nil pointer dereference (big.Int.%s with nil operand)", what)
	}
	b, ok := p.C.V.(BigVal)
	if !ok {
		panic(fmt.Sprintf("%s: operand cell holds %T", what, p.C.V))
	}
	return b
}

func (ex *Exec) uintArg(v Value, what string, max int) uint {
	t := term(v)
	if c, ok := t.ConstInt64(); ok {
		if c < 0 {
			ex.goPanic("%s: negative count", what)
		}
		return uint(c)
	}
	if t.Hi != nil && t.Hi.IsInt64() && t.Hi.Int64() <= int64(max) {
		return uint(ex.concretize(t, what))
	}
	if c, ok := t.ConstInt(); ok && c.BitLen() > 40 {
		// a concrete shift count / size beyond any memory (typically a wrapped negative number): math/big
		// panics when it allocates the result
		ex.goPanic("%s by %s: makeslice: len out of range", what, c)
	}
	ex.unsupported("%s with unbounded symbolic count %s", what, t)
	return 0
}

type bigModel func(ex *Exec, args []Value) Value

func bigBinary(name string, f func(ex *Exec, x, y BigVal) BigVal) bigModel {
	return func(ex *Exec, args []Value) Value {
		z := ex.recvBig(args, name)
		x, y := ex.argBig(args[1], name), ex.argBig(args[2], name)
		z.V = f(ex, x, y)
		return args[0]
	}
}

func explicitE(x, y BigVal) bool { return x.E != nil || y.E != nil }

func bigAdd(ex *Exec, x, y BigVal) BigVal {
	r := BigVal{I: smt.Add(x.I, y.I)}
	if explicitE(x, y) {
		r.E = smt.Add(x.Eval(), y.Eval())
	}
	return r
}

func bigSub(ex *Exec, x, y BigVal) BigVal {
	r := BigVal{I: smt.Sub(x.I, y.I)}
	if explicitE(x, y) {
		r.E = smt.Sub(x.Eval(), y.Eval())
	}
	return r
}

func isConstOne(b BigVal) bool {
	v, ok := b.I.ConstInt()
	return ok && v.Cmp(big.NewInt(1)) == 0 && b.G == nil
}

func bigMul(ex *Exec, x, y BigVal) BigVal {
	if x.G != nil || y.G != nil {
		var m *smt.Term
		if x.G != nil {
			m = x.G.Mod
		} else {
			m = y.G.Mod
		}
		if (x.G == nil || x.G.Mod == m) && (y.G == nil || y.G.Mod == m) {
			if isConstOne(x) {
				return y
			}
			if isConstOne(y) {
				return x
			}
			if v, ok := x.I.ConstInt(); ok && v.Sign() == 0 {
				return bigConst(0)
			}
			if v, ok := y.I.ConstInt(); ok && v.Sign() == 0 {
				return bigConst(0)
			}
			g := addFacets(ex.facetFor(x, m), ex.facetFor(y, m))
			g.Reduced = false
			iv := ex.groupIval(g)
			if x.I.Lo != nil && x.I.Lo.Sign() > 0 && y.I.Lo != nil && y.I.Lo.Sign() > 0 {
				ex.assume(smt.Le(smt.I64(1), iv)) // an unreduced product of positive integers is positive
			}
			return BigVal{I: iv, G: g}
		}
	}
	r := BigVal{I: smt.Mul(x.I, y.I)}
	if explicitE(x, y) {
		r.E = smt.Mul(x.Eval(), y.Eval())
	}
	fx, okx := factorsOf(x)
	fy, oky := factorsOf(y)
	if okx && oky && (x.Factors != nil || y.Factors != nil) {
		r.Factors = append(append([]*smt.Term{}, fx...), fy...)
	}
	return r
}

func factorsOf(b BigVal) ([]*smt.Term, bool) {
	if b.Factors != nil {
		return b.Factors, true
	}
	if v, ok := b.I.ConstInt(); ok && v.Cmp(big.NewInt(1)) == 0 {
		return []*smt.Term{}, true
	}
	return nil, false
}

func (ex *Exec) bigModOp(x, m BigVal) BigVal {
	if x.G != nil && x.G.Mod == m.I {
		g := &GroupFacet{Mod: x.G.Mod, Exps: x.G.Exps, Reduced: true}
		return BigVal{I: ex.groupIval(g), G: g}
	}
	if cg, ok := ex.congruentElement(x, m.I); ok {
		g := &GroupFacet{Mod: cg.Mod, Exps: cg.Exps, Reduced: true}
		return BigVal{I: ex.groupIval(g), G: g}
	}
	if m.E != nil && isRealZero(m.E) {
		// reduction of an exponent modulo the group order keeps its meaning
		r := ex.freshInt("expmod", big.NewInt(0), m.I.Hi)
		ex.assume(smt.Lt(r, m.I))
		return BigVal{I: r, E: x.Eval()}
	}
	ex.panicIf(smt.Eq(m.I, smt.I64(0)), "division by zero (big.Int.Mod)")
	if m.I.Lo != nil && m.I.Lo.Sign() > 0 || m.I.IsConst() {
		return BigVal{I: smt.Mod(x.I, m.I)}
	}
	return BigVal{I: smt.Mod(x.I, smt.Abs(m.I))}
}

// truncated quotient / remainder (Go's Quo, Rem)
func truncQuoRem(x, y *smt.Term) (q, r *smt.Term) {
	if x.Lo != nil && x.Lo.Sign() >= 0 && y.Lo != nil && y.Lo.Sign() > 0 {
		return smt.Div(x, y), smt.Mod(x, y)
	}
	qq := smt.Div(smt.Abs(x), smt.Abs(y))
	same := smt.Eq(smt.Ge(x, smt.I64(0)), smt.Ge(y, smt.I64(0)))
	q = smt.Ite(same, qq, smt.Neg(qq))
	r = smt.Sub(x, smt.Mul(y, q))
	return
}

func (ex *Exec) bigExp(x, y BigVal, mv Value) BigVal {
	var m BigVal
	hasM := false
	if p, ok := mv.(Pointer); ok && p.C != nil {
		m = p.C.V.(BigVal)
		if v, ok := m.I.ConstInt(); !ok || v.Sign() != 0 {
			hasM = true
		}
	}
	xv, xc := x.I.ConstInt()
	yv, yc := y.I.ConstInt()
	if hasM {
		if mvv, mc := m.I.ConstInt(); mc && xc && yc && x.G == nil {
			if yv.Sign() < 0 {
				inv := new(big.Int).ModInverse(xv, mvv)
				if inv == nil {
					return bigConst(1)
				}
			}
			return BigVal{I: smt.IntC(new(big.Int).Exp(xv, yv, mvv))}
		}
		if (xc && xv.Sign() == 0 && x.G == nil) || (x.G == nil && m.I.Lo != nil && m.I.Lo.Sign() > 0 && smt.IsMultipleOf(x.I, m.I)) {
			// 0^y mod m = 0 for y>0, 1 for y == 0  (also for the base m itself, which is 0 mod m)
			if ex.branch(smt.Eq(y.I, smt.I64(0))) {
				return bigConst(1)
			}
			return bigConst(0)
		}
		if ex.modKind(m.I) == "" && x.G == nil && yc && yv.IsInt64() && yv.Int64() >= -4096 && yv.Int64() <= 4096 &&
			m.I.Hi != nil && m.I.Hi.BitLen() <= 24 && m.I.Lo != nil && m.I.Lo.Sign() > 0 {
			// small integers: exact modular arithmetic (square and multiply) instead of the algebraic group model
			base := BigVal{I: smt.Mod(x.I, m.I)}
			n := yv.Int64()
			if n < 0 {
				inv, ok := ex.bigModInverse(base, m)
				if !ok {
					return bigConst(1) // math/big leaves z unchanged and returns nil; callers check ModInverse first
				}
				base, n = inv, -n
			}
			r := smt.Mod(smt.I64(1), m.I)
			sq := base.I
			for ; n > 0; n >>= 1 {
				if n&1 == 1 {
					r = smt.Mod(smt.Mul(r, sq), m.I)
				}
				if n > 1 {
					sq = smt.Mod(smt.Mul(sq, sq), m.I)
				}
			}
			return BigVal{I: r}
		}
		if ex.modKind(m.I) == "" {
			ex.modKinds[m.I.ID] = &ModInfo{Kind: "group", Name: "mod"}
		}
		g := scaleFacet(ex.facetFor(x, m.I), y.Eval())
		return BigVal{I: ex.groupIval(g), G: g}
	}
	// plain power
	if yc && yv.Sign() <= 0 {
		return bigConst(1)
	}
	if xc && yc && yv.IsInt64() && yv.Int64() < 4096 {
		return BigVal{I: smt.IntC(new(big.Int).Exp(xv, yv, nil))}
	}
	if yc && yv.IsInt64() && yv.Int64() <= 4 {
		r := x.I
		for i := int64(1); i < yv.Int64(); i++ {
			r = smt.Mul(r, x.I)
		}
		return BigVal{I: r}
	}
	ex.unsupported("big.Int.Exp without modulus on symbolic operands")
	return BigVal{}
}

func (ex *Exec) bigModInverse(g, n BigVal) (BigVal, bool) {
	gv, gc := g.I.ConstInt()
	nv, nc := n.I.ConstInt()
	if gc && nc && g.G == nil {
		r := new(big.Int).ModInverse(gv, nv)
		if r == nil {
			return BigVal{}, false
		}
		return BigVal{I: smt.IntC(r)}, true
	}
	if gc && gv.Sign() == 0 && g.G == nil {
		return BigVal{}, false // zero has no inverse (for |n| > 1)
	}
	if n.E != nil && isRealZero(n.E) || ex.modKind(n.I) == "order" {
		r := ex.freshInt("inv", big.NewInt(1), n.I.Hi)
		ex.assume(smt.Lt(r, n.I))
		ex.stubs["assume: exponent invertible modulo the group order"] = true
		return BigVal{I: r, E: smt.RDiv(realOne, g.Eval())}, true
	}
	if ex.modKind(n.I) == "group" || (g.G != nil && g.G.Mod == n.I) {
		f := scaleFacet(ex.facetFor(g, n.I), smt.RealC(big.NewRat(-1, 1)))
		ex.stubs["assume: group elements are units modulo the modulus"] = true
		return BigVal{I: ex.groupIval(f), G: f}, true
	}
	// generic integers: fork on existence with explicit witnesses
	if !ex.branch(smt.Var(ex.fresh("invertible"), smt.Bool, nil, nil)) {
		d := ex.freshInt("cd", big.NewInt(2), nil)
		k1 := ex.freshInt("cdk", nil, nil)
		k2 := ex.freshInt("cdk", nil, nil)
		ex.assume(smt.Eq(g.I, smt.Mul(d, k1)))
		ex.assume(smt.Eq(n.I, smt.Mul(d, k2)))
		return BigVal{}, false
	}
	an := smt.Abs(n.I)
	r := ex.freshInt("inv", big.NewInt(0), nil)
	ex.assume(smt.Lt(r, an))
	k := ex.freshInt("invk", nil, nil)
	ex.assume(smt.Eq(smt.Mul(g.I, r), smt.Add(smt.I64(1), smt.Mul(k, an))))
	return BigVal{I: r}, true
}

// bigGCD models z.GCD(x, y, a, b).
func (ex *Exec) bigGCD(a, b BigVal, wantX, wantY bool) (g, x, y BigVal) {
	av, ac := a.I.ConstInt()
	bv, bc := b.I.ConstInt()
	if ac && bc {
		xx, yy := new(big.Int), new(big.Int)
		gg := new(big.Int).GCD(xx, yy, av, bv)
		return BigVal{I: smt.IntC(gg)}, BigVal{I: smt.IntC(xx)}, BigVal{I: smt.IntC(yy)}
	}
	// product-of-primes rule (accumulator updates)
	fa, oka := a.Factors, a.Factors != nil
	fb, okb := factorsOf(b)
	if oka && okb && len(fa) == 1 {
		hit := smt.False
		for _, f := range fb {
			hit = smt.Or(hit, smt.Eq(fa[0], f))
		}
		gi := smt.Ite(hit, fa[0], smt.I64(1))
		xi := ex.freshInt("bez", nil, nil)
		yi := ex.freshInt("bez", nil, nil)
		ex.assume(smt.Eq(smt.Add(smt.Mul(xi, a.I), smt.Mul(yi, b.I)), gi))
		ex.stubs["gcd(prime, product of primes) = the prime if it is a factor, else 1"] = true
		return BigVal{I: gi}, BigVal{I: xi}, BigVal{I: yi}
	}
	if ex.primeTerms[a.I.ID] && ex.primeTerms[b.I.ID] && a.G == nil && b.G == nil {
		// two primes: the gcd is 1 unless they are equal
		gi := smt.Ite(smt.Eq(a.I, b.I), a.I, smt.I64(1))
		xi := ex.freshInt("bez", nil, nil)
		yi := ex.freshInt("bez", nil, nil)
		ex.assume(smt.Eq(smt.Add(smt.Mul(xi, a.I), smt.Mul(yi, b.I)), gi))
		ex.stubs["gcd of two primes = 1 unless they are equal"] = true
		return BigVal{I: gi}, BigVal{I: xi}, BigVal{I: yi}
	}
	if b.E != nil && isRealZero(b.E) {
		// b is the group order: a is assumed invertible
		xi := ex.freshInt("bez", nil, nil)
		yi := ex.freshInt("bez", nil, nil)
		ex.stubs["assume: exponent invertible modulo the group order"] = true
		return bigConst(1), BigVal{I: xi, E: smt.RDiv(realOne, a.Eval())}, BigVal{I: yi}
	}
	if ex.modKind(b.I) == "group" {
		// gcd(r, N) for a random r: assumed coprime (finding a non-unit factors N)
		ex.stubs["assume: group elements are units modulo the modulus"] = true
		return bigConst(1), BigVal{I: ex.freshInt("bez", nil, nil)}, BigVal{I: ex.freshInt("bez", nil, nil)}
	}
	// general: g>0 divides both and is an integer combination (a, b not both zero)
	gi := ex.freshInt("gcd", big.NewInt(0), nil)
	xi := ex.freshInt("bez", nil, nil)
	yi := ex.freshInt("bez", nil, nil)
	ka := ex.freshInt("gcdk", nil, nil)
	kb := ex.freshInt("gcdk", nil, nil)
	ex.assume(smt.Eq(smt.Abs(a.I), smt.Mul(gi, ka)))
	ex.assume(smt.Eq(smt.Abs(b.I), smt.Mul(gi, kb)))
	ex.assume(smt.Eq(smt.Add(smt.Mul(xi, a.I), smt.Mul(yi, b.I)), gi))
	ex.assume(smt.Eq(smt.Eq(gi, smt.I64(0)), smt.And(smt.Eq(a.I, smt.I64(0)), smt.Eq(b.I, smt.I64(0)))))
	// the cofactors of the extended Euclidean algorithm are small: |x| <= max(1, |b|/(2g)), |y| <= max(1, |a|/(2g))
	two := smt.I64(2)
	g2 := smt.Mul(two, gi)
	maxT := func(u, v *smt.Term) *smt.Term { return smt.Ite(smt.Ge(u, v), u, v) }
	ex.assume(smt.Le(smt.Mul(g2, smt.Abs(xi)), maxT(g2, smt.Abs(b.I))))
	ex.assume(smt.Le(smt.Mul(g2, smt.Abs(yi)), maxT(g2, smt.Abs(a.I))))
	ex.stubs["math/big GCD cofactors satisfy the extended-Euclid bounds |x| <= max(1,|b|/2g), |y| <= max(1,|a|/2g)"] = true
	return BigVal{I: gi}, BigVal{I: xi}, BigVal{I: yi}
}

// bigXorUF: XOR of wide non-negative symbolic operands as an uninterpreted, commutative involution:
// xor(xor(a,b),b) = a is applied syntactically and asserted for every application created
// (so that the solver can use it through congruence); xor(a,a) = 0, xor(a,0) = a.
func (ex *Exec) bigXorUF(x, y BigVal) (BigVal, bool) {
	a, b := x.I, y.I
	for _, t := range []*smt.Term{a, b} {
		if t.Lo == nil || t.Lo.Sign() < 0 || t.Hi == nil {
			return BigVal{}, false
		}
	}
	if a.Hi.BitLen() <= 64 && b.Hi.BitLen() <= 64 {
		return BigVal{}, false // narrow operands: exact bitwise model
	}
	if a == b {
		return bigConst(0), true
	}
	if v, ok := a.ConstInt(); ok && v.Sign() == 0 {
		return BigVal{I: b}, true
	}
	if v, ok := b.ConstInt(); ok && v.Sign() == 0 {
		return BigVal{I: a}, true
	}
	w := a.Hi.BitLen()
	if b.Hi.BitLen() > w {
		w = b.Hi.BitLen()
	}
	hi := new(big.Int).Sub(smt.Pow2Big(uint(w)), big.NewInt(1))
	mk := func(u, v *smt.Term) *smt.Term {
		if u.ID > v.ID {
			u, v = v, u
		}
		t := smt.App("bvxor", smt.Int, big.NewInt(0), hi, u, v)
		// commutativity, for the solver's congruence reasoning (the canonical argument order is only syntactic)
		ex.assume(smt.Eq(t, smt.App("bvxor", smt.Int, big.NewInt(0), hi, v, u)))
		return t
	}
	for _, pr := range [][2]*smt.Term{{a, b}, {b, a}} {
		if t := pr[0]; t.Op == smt.OApp && t.Name == "bvxor" {
			if t.Args[0] == pr[1] {
				return BigVal{I: t.Args[1]}, true
			}
			if t.Args[1] == pr[1] {
				return BigVal{I: t.Args[0]}, true
			}
		}
	}
	t := mk(a, b)
	ex.assume(smt.Eq(mk(t, a), b))
	ex.assume(smt.Eq(mk(t, b), a))
	// xor(a,b) = 0 exactly when a = b (equality decided with the genericity rules where they apply)
	ex.assume(smt.Eq(smt.Eq(t, smt.I64(0)), ex.termEq(a, b)))
	ex.stubs["big.Int.Xor on wide symbolic operands is an uninterpreted commutative involution (xor(xor(a,b),b) = a)"] = true
	return BigVal{I: t}, true
}

// promoteReduced: a plain integer of the syntactic form (v mod N) compared with a reduced group element
// modulo N is itself a reduced element: the atom standing for it
func (ex *Exec) promoteReduced(x, other BigVal) BigVal {
	if x.G == nil && other.G != nil && other.G.Reduced && x.I.Op == smt.OMod && len(x.I.Args) == 2 && x.I.Args[1] == other.G.Mod {
		if x.I.Args[0].Op == smt.OMul {
			if f, ok := ex.productFacet(x.I, other.G.Mod, 0); ok {
				return BigVal{I: x.I, G: f}
			}
		}
		f := ex.facetFor(x, other.G.Mod)
		return BigVal{I: x.I, G: &GroupFacet{Mod: f.Mod, Exps: f.Exps, Reduced: true}}
	}
	return x
}

func (ex *Exec) bigCmp(x, y BigVal) *smt.Term {
	x, y = ex.promoteReduced(x, y), ex.promoteReduced(y, x)
	// a reduced group element is smaller than its modulus
	if x.G != nil && x.G.Reduced && y.G == nil && y.I == x.G.Mod {
		return smt.I64(-1)
	}
	if y.G != nil && y.G.Reduced && x.G == nil && x.I == y.G.Mod {
		return smt.I64(1)
	}
	if x.G != nil && y.G != nil && x.G.Mod == y.G.Mod && x.G.Reduced && y.G.Reduced {
		eq := ex.bigEq(x, y)
		return smt.Ite(eq, smt.I64(0), smt.Ite(smt.Lt(x.I, y.I), smt.I64(-1), smt.I64(1)))
	}
	if (x.G != nil && x.G.Reduced && isConstOne(y)) || (y.G != nil && y.G.Reduced && isConstOne(x)) {
		eq := ex.bigEq(x, y)
		return smt.Ite(eq, smt.I64(0), smt.Ite(smt.Lt(x.I, y.I), smt.I64(-1), smt.I64(1)))
	}
	eq := ex.termEq(x.I, y.I)
	return smt.Ite(smt.Lt(x.I, y.I), smt.I64(-1), smt.Ite(eq, smt.I64(0), smt.I64(1)))
}

// bigBytes models x.Bytes(): big-endian bytes of |x|.
func (ex *Exec) bigBytes(x BigVal) Value {
	if v, ok := x.I.ConstInt(); ok {
		bs := new(big.Int).Abs(v).Bytes()
		sl := ex.makeSlice(byteType, len(bs), len(bs))
		for i, b := range bs {
			sl.A.E[i].V = smt.I64(int64(b))
		}
		return sl
	}
	abs := smt.Abs(x.I)
	if abs.Hi != nil && abs.Hi.BitLen() <= 64 {
		maxLen := (abs.Hi.BitLen() + 7) / 8
		conds := make([]*smt.Term, maxLen+1)
		for n := 0; n <= maxLen; n++ {
			lo := smt.True
			if n > 0 {
				lo = smt.Ge(abs, smt.Pow2(uint(8*(n-1))))
			}
			conds[n] = smt.And(lo, smt.Lt(abs, smt.Pow2(uint(8*n))))
		}
		n := ex.choose(conds)
		sl := ex.makeSlice(byteType, n, n)
		for i := 0; i < n; i++ {
			sl.A.E[i].V = smt.Mod(smt.Div(abs, smt.Pow2(uint(8*(n-1-i)))), smt.I64(256))
		}
		return sl
	}
	// unbounded: an opaque blob that only hashing and SetBytes understand. Its
	// length is exact when the bounds of the value leave few candidates (a
	// modulus of a given bit length), otherwise it is not modelled (0).
	a := &ArrObj{}
	ex.blobs[a] = BigVal{I: abs, G: x.G}
	n := 0
	if abs.Lo != nil && abs.Hi != nil && abs.Lo.Sign() >= 0 {
		nlo, nhi := (abs.Lo.BitLen()+7)/8, (abs.Hi.BitLen()+7)/8
		if nhi-nlo <= 3 {
			conds := make([]*smt.Term, nhi-nlo+1)
			for k := nlo; k <= nhi; k++ {
				lo := smt.True
				if k > 0 {
					lo = smt.Ge(abs, smt.Pow2(uint(8*(k-1))))
				}
				conds[k-nlo] = smt.And(lo, smt.Lt(abs, smt.Pow2(uint(8*k))))
			}
			n = nlo + ex.choose(conds)
		}
	}
	return Slice{A: a, Len: n, Cap: n}
}

func (ex *Exec) bigSetBytes(s Slice) BigVal {
	if s.A != nil {
		if b, ok := ex.blobs[s.A]; ok {
			return BigVal{I: b.I}
		}
		if h, ok := ex.digests[s.A]; ok {
			n := len(s.A.E)
			if s.Off == 0 && s.Len == n {
				return BigVal{I: h}
			}
			// a contiguous part of the digest: closed form instead of a byte sum
			v := smt.Div(h, smt.Pow2(uint(8*(n-s.Off-s.Len))))
			return BigVal{I: smt.Mod(v, smt.Pow2(uint(8*s.Len)))}
		}
	}
	r := smt.I64(0)
	for i := 0; i < s.Len; i++ {
		b := term(ex.load(s.A.E[s.Off+i]))
		r = smt.Add(smt.Mul(r, smt.I64(256)), b)
	}
	return BigVal{I: r}
}

func registerBigModels(P *Program) {
	m := map[string]bigModel{}
	m["Add"] = bigBinary("Add", bigAdd)
	m["Sub"] = bigBinary("Sub", bigSub)
	m["Mul"] = bigBinary("Mul", bigMul)
	m["Mod"] = bigBinary("Mod", func(ex *Exec, x, y BigVal) BigVal { return ex.bigModOp(x, y) })
	m["Div"] = bigBinary("Div", func(ex *Exec, x, y BigVal) BigVal {
		ex.panicIf(smt.Eq(y.I, smt.I64(0)), "division by zero (big.Int.Div)")
		return BigVal{I: smt.Div(x.I, y.I)}
	})
	m["Quo"] = bigBinary("Quo", func(ex *Exec, x, y BigVal) BigVal {
		ex.panicIf(smt.Eq(y.I, smt.I64(0)), "division by zero (big.Int.Quo)")
		q, _ := truncQuoRem(x.I, y.I)
		return BigVal{I: q}
	})
	m["Rem"] = bigBinary("Rem", func(ex *Exec, x, y BigVal) BigVal {
		ex.panicIf(smt.Eq(y.I, smt.I64(0)), "division by zero (big.Int.Rem)")
		_, r := truncQuoRem(x.I, y.I)
		return BigVal{I: r}
	})
	m["DivMod"] = func(ex *Exec, args []Value) Value {
		z := ex.recvBig(args, "DivMod")
		x, y := ex.argBig(args[1], "DivMod"), ex.argBig(args[2], "DivMod")
		mc := ex.recvBig(args[3:], "DivMod")
		ex.panicIf(smt.Eq(y.I, smt.I64(0)), "division by zero (big.Int.DivMod)")
		z.V = BigVal{I: smt.Div(x.I, y.I)}
		mc.V = BigVal{I: smt.Mod(x.I, y.I)}
		return Tuple{args[0], args[3]}
	}
	m["QuoRem"] = func(ex *Exec, args []Value) Value {
		z := ex.recvBig(args, "QuoRem")
		x, y := ex.argBig(args[1], "QuoRem"), ex.argBig(args[2], "QuoRem")
		rc := ex.recvBig(args[3:], "QuoRem")
		ex.panicIf(smt.Eq(y.I, smt.I64(0)), "division by zero (big.Int.QuoRem)")
		q, r := truncQuoRem(x.I, y.I)
		z.V = BigVal{I: q}
		rc.V = BigVal{I: r}
		return Tuple{args[0], args[3]}
	}
	m["Neg"] = func(ex *Exec, args []Value) Value {
		z := ex.recvBig(args, "Neg")
		x := ex.argBig(args[1], "Neg")
		r := BigVal{I: smt.Neg(x.I)}
		if x.E != nil {
			r.E = smt.Neg(x.E)
		}
		z.V = r
		return args[0]
	}
	m["Abs"] = func(ex *Exec, args []Value) Value {
		z := ex.recvBig(args, "Abs")
		x := ex.argBig(args[1], "Abs")
		z.V = BigVal{I: smt.Abs(x.I)}
		return args[0]
	}
	m["Set"] = func(ex *Exec, args []Value) Value {
		z := ex.recvBig(args, "Set")
		z.V = ex.argBig(args[1], "Set")
		return args[0]
	}
	m["SetInt64"] = func(ex *Exec, args []Value) Value {
		z := ex.recvBig(args, "SetInt64")
		z.V = BigVal{I: term(args[1])}
		return args[0]
	}
	m["SetUint64"] = m["SetInt64"]
	m["Cmp"] = func(ex *Exec, args []Value) Value {
		c := ex.recvBig(args, "Cmp")
		return ex.bigCmp(c.V.(BigVal), ex.argBig(args[1], "Cmp"))
	}
	m["CmpAbs"] = func(ex *Exec, args []Value) Value {
		c := ex.recvBig(args, "CmpAbs")
		x, y := smt.Abs(c.V.(BigVal).I), smt.Abs(ex.argBig(args[1], "CmpAbs").I)
		return smt.Ite(smt.Lt(x, y), smt.I64(-1), smt.Ite(smt.Eq(x, y), smt.I64(0), smt.I64(1)))
	}
	m["Sign"] = func(ex *Exec, args []Value) Value {
		x := ex.recvBig(args, "Sign").V.(BigVal).I
		return smt.Ite(smt.Lt(x, smt.I64(0)), smt.I64(-1), smt.Ite(smt.Eq(x, smt.I64(0)), smt.I64(0), smt.I64(1)))
	}
	m["BitLen"] = func(ex *Exec, args []Value) Value {
		return smt.BitLen(ex.recvBig(args, "BitLen").V.(BigVal).I)
	}
	m["Bit"] = func(ex *Exec, args []Value) Value {
		x := ex.recvBig(args, "Bit").V.(BigVal).I
		i := ex.uintArg(args[1], "Bit", 4096)
		return smt.Mod(smt.Div(x, smt.Pow2(i)), smt.I64(2))
	}
	m["Int64"] = func(ex *Exec, args []Value) Value {
		x := ex.recvBig(args, "Int64").V.(BigVal).I
		u := smt.Mod(smt.Abs(x), smt.Pow2(64))
		return smt.Wrap(smt.Ite(smt.Lt(x, smt.I64(0)), smt.Neg(u), u), true, 64)
	}
	m["Uint64"] = func(ex *Exec, args []Value) Value {
		x := ex.recvBig(args, "Uint64").V.(BigVal).I
		return smt.Mod(smt.Abs(x), smt.Pow2(64))
	}
	m["IsInt64"] = func(ex *Exec, args []Value) Value {
		x := ex.recvBig(args, "IsInt64").V.(BigVal).I
		lo, hi := intKind{true, 64}.bounds()
		return smt.InRange(x, lo, hi)
	}
	m["IsUint64"] = func(ex *Exec, args []Value) Value {
		x := ex.recvBig(args, "IsUint64").V.(BigVal).I
		lo, hi := intKind{false, 64}.bounds()
		return smt.InRange(x, lo, hi)
	}
	m["Lsh"] = func(ex *Exec, args []Value) Value {
		z := ex.recvBig(args, "Lsh")
		x := ex.argBig(args[1], "Lsh")
		n := ex.uintArg(args[2], "Lsh", 64)
		if n > 1<<16 {
			ex.unsupported("Lsh by %d", n)
		}
		r := BigVal{I: smt.Mul(x.I, smt.Pow2(n))}
		if x.E != nil {
			r.E = smt.Mul(x.E, smt.ToReal(smt.Pow2(n)))
		}
		z.V = r
		return args[0]
	}
	m["Rsh"] = func(ex *Exec, args []Value) Value {
		z := ex.recvBig(args, "Rsh")
		x := ex.argBig(args[1], "Rsh")
		n := ex.uintArg(args[2], "Rsh", 64)
		if n > 1<<16 {
			z.V = BigVal{I: smt.Ite(smt.Lt(x.I, smt.I64(0)), smt.I64(-1), smt.I64(0))}
			return args[0]
		}
		z.V = BigVal{I: smt.Div(x.I, smt.Pow2(n))}
		return args[0]
	}
	bitop := func(name string, op token.Token) bigModel {
		return bigBinary(name, func(ex *Exec, x, y BigVal) BigVal {
			xv, xc := x.I.ConstInt()
			yv, yc := y.I.ConstInt()
			if xc && yc {
				r := new(big.Int)
				switch op {
				case token.AND:
					r.And(xv, yv)
				case token.OR:
					r.Or(xv, yv)
				case token.XOR:
					r.Xor(xv, yv)
				case token.AND_NOT:
					r.AndNot(xv, yv)
				}
				return BigVal{I: smt.IntC(r)}
			}
			if op == token.AND {
				if xc && !yc {
					x, y, xv, yv, yc = y, x, yv, xv, true
				}
				if yc {
					if n, ok := isMask(yv); ok {
						return BigVal{I: smt.Mod(x.I, smt.Pow2(n))}
					}
					if yv.Sign() == 0 {
						return bigConst(0)
					}
				}
			}
			if op == token.XOR {
				if big, ok := ex.bigXorUF(x, y); ok {
					return big
				}
			}
			// bounded non-negative operands only
			w := uint(0)
			for _, t := range []*smt.Term{x.I, y.I} {
				if t.Lo == nil || t.Lo.Sign() < 0 || t.Hi == nil || t.Hi.BitLen() > 64 {
					ex.unsupported("big.Int.%s on unbounded symbolic operands", name)
				}
				if uint(t.Hi.BitLen()) > w {
					w = uint(t.Hi.BitLen())
				}
			}
			if w == 0 {
				return bigConst(0)
			}
			return BigVal{I: ex.bitwise(op, x.I, y.I, intKind{false, w})}
		})
	}
	m["And"] = bitop("And", token.AND)
	m["Or"] = bitop("Or", token.OR)
	m["Xor"] = bitop("Xor", token.XOR)
	m["AndNot"] = bitop("AndNot", token.AND_NOT)
	m["Exp"] = func(ex *Exec, args []Value) Value {
		z := ex.recvBig(args, "Exp")
		x, y := ex.argBig(args[1], "Exp"), ex.argBig(args[2], "Exp")
		z.V = ex.bigExp(x, y, args[3])
		return args[0]
	}
	m["ModInverse"] = func(ex *Exec, args []Value) Value {
		z := ex.recvBig(args, "ModInverse")
		g, n := ex.argBig(args[1], "ModInverse"), ex.argBig(args[2], "ModInverse")
		r, ok := ex.bigModInverse(g, n)
		if !ok {
			return Pointer{}
		}
		z.V = r
		return args[0]
	}
	m["GCD"] = func(ex *Exec, args []Value) Value {
		z := ex.recvBig(args, "GCD")
		a, b := ex.argBig(args[3], "GCD"), ex.argBig(args[4], "GCD")
		xp, _ := args[1].(Pointer)
		yp, _ := args[2].(Pointer)
		g, x, y := ex.bigGCD(a, b, xp.C != nil, yp.C != nil)
		z.V = g
		if xp.C != nil {
			xp.C.V = x
		}
		if yp.C != nil {
			yp.C.V = y
		}
		return args[0]
	}
	m["Sqrt"] = func(ex *Exec, args []Value) Value {
		z := ex.recvBig(args, "Sqrt")
		x := ex.argBig(args[1], "Sqrt")
		ex.panicIf(smt.Lt(x.I, smt.I64(0)), "square root of negative number")
		if v, ok := x.I.ConstInt(); ok {
			z.V = BigVal{I: smt.IntC(new(big.Int).Sqrt(v))}
			return args[0]
		}
		r := ex.freshInt("sqrt", big.NewInt(0), nil)
		ex.assume(smt.Le(smt.Mul(r, r), x.I))
		r1 := smt.Add(r, smt.I64(1))
		ex.assume(smt.Lt(x.I, smt.Mul(r1, r1)))
		z.V = BigVal{I: r}
		return args[0]
	}
	m["ProbablyPrime"] = func(ex *Exec, args []Value) Value {
		return isPrime(ex.recvBig(args, "ProbablyPrime").V.(BigVal).I)
	}
	m["Bytes"] = func(ex *Exec, args []Value) Value {
		return ex.bigBytes(ex.recvBig(args, "Bytes").V.(BigVal))
	}
	m["SetBytes"] = func(ex *Exec, args []Value) Value {
		z := ex.recvBig(args, "SetBytes")
		z.V = ex.bigSetBytes(args[1].(Slice))
		return args[0]
	}
	m["SetString"] = func(ex *Exec, args []Value) Value {
		z := ex.recvBig(args, "SetString")
		s, ok := args[1].(string)
		base, ok2 := term(args[2]).ConstInt64()
		if !ok || !ok2 {
			ex.unsupported("SetString with symbolic input")
		}
		v, good := new(big.Int).SetString(s, int(base))
		if !good {
			return Tuple{Pointer{}, smt.False}
		}
		z.V = BigVal{I: smt.IntC(v)}
		return Tuple{args[0], smt.True}
	}
	m["String"] = func(ex *Exec, args []Value) Value {
		p := args[0].(Pointer)
		if p.C == nil {
			return "<nil>"
		}
		if v, ok := p.C.V.(BigVal).I.ConstInt(); ok {
			return v.String()
		}
		// a token that is the same for the same symbolic value (e.g. as a map key)
		return fmt.Sprintf("<symbolic big.Int #%d>", ex.recvBig(args, "String").V.(BigVal).I.ID)
	}
	m["Text"] = m["String"]
	m["Bits"] = func(ex *Exec, args []Value) Value {
		x := ex.recvBig(args, "Bits").V.(BigVal).I
		sl := ex.makeSlice(uintType, 1, 1)
		sl.A.E[0].V = smt.Mod(smt.Abs(x), smt.Pow2(64))
		ex.stubs["big.Int.Bits: only the lowest word is modelled"] = true
		return sl
	}
	m["Rand"] = func(ex *Exec, args []Value) Value {
		z := ex.recvBig(args, "Rand")
		n := ex.argBig(args[2], "Rand")
		r := ex.freshInt("mrand", big.NewInt(0), n.I.Hi)
		ex.assume(smt.Lt(r, n.I))
		z.V = BigVal{I: r}
		return args[0]
	}
	m["Not"] = func(ex *Exec, args []Value) Value {
		z := ex.recvBig(args, "Not")
		x := ex.argBig(args[1], "Not")
		z.V = BigVal{I: smt.Sub(smt.I64(-1), x.I)}
		return args[0]
	}
	readOnly := map[string]bool{"Cmp": true, "CmpAbs": true, "Sign": true, "BitLen": true, "Bit": true, "Int64": true, "Uint64": true,
		"IsInt64": true, "IsUint64": true, "Bytes": true, "String": true, "Text": true, "ProbablyPrime": true, "FillBytes": true,
		"Append": true, "TrailingZeroBits": true, "Bits": true, "MarshalJSON": true, "MarshalText": true, "Format": true}
	for name, f := range m {
		f, name := f, name
		P.models["(*math/big.Int)."+name] = func(ex *Exec, fn *ssa.Function, args []Value) (Value, bool) {
			if ex.sched != nil {
				// scheduler: the receiver is written (read by the read-only methods), big operands are read
				for i, a := range args {
					if p, ok := a.(Pointer); ok && p.C != nil {
						if _, isBig := p.C.V.(BigVal); isBig {
							ex.noteAccess(p.C, i == 0 && !readOnly[name])
						}
					}
				}
			}
			return f(ex, args), true
		}
	}
	P.models["math/big.NewInt"] = func(ex *Exec, fn *ssa.Function, args []Value) (Value, bool) {
		return ex.newBig(BigVal{I: term(args[0])}), true
	}
	P.models["math/big.Jacobi"] = func(ex *Exec, fn *ssa.Function, args []Value) (Value, bool) {
		x, y := ex.argBig(args[0], "Jacobi"), ex.argBig(args[1], "Jacobi")
		xv, xc := x.I.ConstInt()
		yv, yc := y.I.ConstInt()
		if xc && yc && yv.Bit(0) == 1 {
			return smt.I64(int64(big.Jacobi(xv, yv))), true
		}
		return smt.App("jacobi", smt.Int, big.NewInt(-1), big.NewInt(1), x.I, y.I), true
	}
	P.models["crypto/rand.Int"] = func(ex *Exec, fn *ssa.Function, args []Value) (Value, bool) {
		mx := ex.argBig(args[1], "rand.Int")
		ex.panicIf(smt.Le(mx.I, smt.I64(0)), "crypto/rand: argument to Int is <= 0")
		var hi *big.Int
		if mx.I.Hi != nil {
			hi = new(big.Int).Sub(mx.I.Hi, big.NewInt(1))
		}
		r := ex.freshInt("rand", big.NewInt(0), hi)
		ex.assume(smt.Lt(r, mx.I))
		ex.draws = append(ex.draws, r)
		return Tuple{ex.newBig(BigVal{I: r, Tag: r.Name}), Iface{}}, true
	}
}
