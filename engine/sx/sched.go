package sx

import (
	"fmt"
	"math/big"

	"gabiverif/smt"

	"golang.org/x/tools/go/ssa"
)

// A small symbolic scheduler: goroutines of the code under test run as
// cooperative threads; at every visible operation (channel operation,
// sync/atomic call, WaitGroup/Mutex/Once operation, store to a cell owned by
// another thread, load of such a cell that another thread wrote or is about to
// write) the scheduler forks over which runnable thread continues. Two threads
// whose pending accesses to the same cell conflict (at least one write, neither
// atomic) are a DATA RACE. Bounded by the number of preemptions.

type access struct {
	c      *Cell
	write  bool
	atomic bool
}

type thread struct {
	id      int
	fn      Value
	args    []Value
	invoke  *ssa.CallCommon
	resume  chan struct{}
	exited  chan struct{}
	started bool
	done    bool
	pending *access
	canRun  func() bool
}

type scheduler struct {
	threads     []*thread
	cur         int
	abort       interface{}
	killed      bool
	preemptions int
	bound       int
	written     map[*Cell]int // cell -> id of the last thread (other than the owner) that wrote it after spawning
	seq         int
}

type threadKill struct{}

func (ex *Exec) curThread() int {
	if ex.sched == nil || ex.inInit {
		// package-level state (lazily initialised here) belongs to the program, not to the goroutine that touches it first
		return 0
	}
	return ex.sched.cur
}

func (ex *Exec) goStmt(fr *frame, x *ssa.Go) {
	if ex.Ob.Param("scheduler", 0) == 0 {
		ex.unsupported("go statement (obligation does not enable the scheduler)")
	}
	if ex.sched == nil {
		ex.sched = &scheduler{bound: ex.Ob.Param("preemptions", 2), written: map[*Cell]int{}}
		ex.sched.threads = []*thread{{id: 0, started: true, resume: make(chan struct{}), exited: make(chan struct{})}}
	}
	s := ex.sched
	t := &thread{id: len(s.threads), resume: make(chan struct{}), exited: make(chan struct{})}
	t.fn = ex.get(fr, x.Call.Value)
	for _, a := range x.Call.Args {
		t.args = append(t.args, ex.get(fr, a))
	}
	if x.Call.IsInvoke() {
		t.invoke = &x.Call
	}
	if len(s.threads) > 6 {
		ex.unsupported("more than 6 goroutines")
	}
	s.threads = append(s.threads, t)
	ex.stubs[fmt.Sprintf("symbolic scheduler: cooperative threads, context switches only at visible operations, at most %d preemptions per path, sequential consistency", s.bound)] = true
}

func (t *thread) runnable() bool {
	return !t.done && (t.canRun == nil || t.canRun())
}

// yieldPoint is called by the running thread before a visible operation.
func (ex *Exec) yieldPoint(acc *access, canRun func() bool) {
	s := ex.sched
	if s == nil || ex.merging || ex.inInit {
		if canRun != nil && !canRun() {
			ex.end(EndUnsupported, "operation blocks forever (no other goroutine)")
		}
		return
	}
	me := s.threads[s.cur]
	me.pending, me.canRun = acc, canRun
	if acc != nil {
		for _, u := range s.threads {
			if u != me && !u.done && u.pending != nil && !(u.pending.atomic && acc.atomic) && u.pending.c == acc.c && (acc.write || u.pending.write) {
				me.pending, me.canRun = nil, nil
				ex.end(EndPanic, "DATA RACE: goroutines %d and %d access the same memory location without synchronisation (%s / %s)", me.id, u.id, rw(acc.write), rw(u.pending.write))
			}
		}
	}
	ex.switchFrom(me)
	me.pending, me.canRun = nil, nil
}

func rw(w bool) string {
	if w {
		return "write"
	}
	return "read"
}

// switchFrom lets the scheduler pick the thread that continues; returns when `me` runs again.
func (ex *Exec) switchFrom(me *thread) {
	s := ex.sched
	var run []*thread
	for _, t := range s.threads {
		if t.runnable() {
			run = append(run, t)
		}
	}
	if len(run) == 0 {
		ex.end(EndPanic, "DEADLOCK: all goroutines are blocked")
	}
	meRunnable := me.runnable()
	if meRunnable && s.preemptions >= s.bound {
		return
	}
	pick := run[0]
	if len(run) > 1 {
		v := ex.freshInt("sched", big.NewInt(0), big.NewInt(int64(len(run)-1)))
		conds := make([]*smt.Term, len(run))
		for i := range run {
			conds[i] = smt.Eq(v, smt.I64(int64(i)))
		}
		pick = run[ex.choose(conds)]
	}
	if pick == me {
		return
	}
	if meRunnable {
		s.preemptions++
	}
	ex.transfer(me, pick)
}

// transfer hands the baton from `me` to `to` and waits until `me` is resumed.
func (ex *Exec) transfer(me, to *thread) {
	s := ex.sched
	s.cur = to.id
	ex.wake(to)
	<-me.resume
	s.cur = me.id
	if s.killed {
		panic(threadKill{})
	}
	if s.abort != nil && me.id == 0 {
		a := s.abort
		s.abort = nil
		panic(a)
	}
}

func (ex *Exec) wake(t *thread) {
	if t.started {
		t.resume <- struct{}{}
		return
	}
	t.started = true
	go func() {
		s := ex.sched
		defer close(t.exited)
		defer func() {
			if r := recover(); r != nil {
				if _, isKill := r.(threadKill); isKill {
					return
				}
				// a path end (or an internal error) inside a goroutine: report it through the main thread
				t.done = true
				s.abort = r
				s.cur = 0
				s.threads[0].resume <- struct{}{}
			}
		}()
		savedDepth := ex.depth
		ex.depth = 0
		if t.invoke != nil {
			ex.invoke(t.fn, t.invoke.Method, t.args)
		} else {
			ex.callValue(t.fn, t.args)
		}
		ex.depth = savedDepth
		t.done = true
		// pass the baton on
		var run []*thread
		for _, u := range s.threads {
			if u.runnable() {
				run = append(run, u)
			}
		}
		if len(run) == 0 {
			panic(&pathEnd{Kind: EndPanic, Msg: "DEADLOCK: all goroutines are blocked", Pos: ex.curPos})
		}
		pick := run[0]
		if len(run) > 1 {
			v := ex.freshInt("sched", big.NewInt(0), big.NewInt(int64(len(run)-1)))
			conds := make([]*smt.Term, len(run))
			for i := range run {
				conds[i] = smt.Eq(v, smt.I64(int64(i)))
			}
			pick = run[ex.choose(conds)]
		}
		s.cur = pick.id
		ex.wake(pick)
	}()
}

// killThreads terminates parked goroutines at the end of a path.
func (ex *Exec) killThreads() {
	s := ex.sched
	if s == nil {
		return
	}
	s.killed = true
	for _, t := range s.threads[1:] {
		if t.started && !t.done {
			select {
			case <-t.exited:
			default:
				t.resume <- struct{}{}
				<-t.exited
			}
		}
	}
}

// noteAccess is called before every load/store through a pointer.
func (ex *Exec) noteAccess(c *Cell, write bool) {
	s := ex.sched
	if s == nil || ex.merging || ex.inInit || len(s.threads) < 2 {
		return
	}
	cur := s.cur
	if c.Owner == cur && cur != 0 {
		return // thread-private allocation
	}
	if cur == 0 {
		// the main thread's own accesses are not scheduling points (harnesses keep main passive)
		return
	}
	if write {
		ex.yieldPoint(&access{c: c, write: true}, nil)
		s.written[c] = cur
		return
	}
	visible := false
	if w, ok := s.written[c]; ok && w != cur {
		visible = true
	}
	for _, u := range s.threads {
		if u.id != cur && !u.done && u.pending != nil && u.pending.c == c && u.pending.write {
			visible = true
		}
	}
	if visible {
		ex.yieldPoint(&access{c: c}, nil)
	}
}

// quiesce (main thread only): lets the other goroutines run until none of them can
// continue, and returns how many have not returned (they are blocked forever: the main
// thread does nothing further that could release them).
func (ex *Exec) quiesce() int {
	s := ex.sched
	if s == nil {
		return 0
	}
	if s.cur != 0 {
		ex.unsupported("vpQuiesce outside the main goroutine")
	}
	ex.yieldPoint(nil, func() bool {
		for _, t := range s.threads[1:] {
			if t.runnable() {
				return false
			}
		}
		return true
	})
	left := 0
	for _, t := range s.threads[1:] {
		if !t.done {
			left++
		}
	}
	return left
}
