// Package sx is a symbolic executor for go/ssa functions.
package sx

import (
	"fmt"
	"go/types"
	"math/big"
	"strings"

	"gabiverif/smt"

	"golang.org/x/tools/go/ssa"
)

// Value is one of:
//
//	*smt.Term  booleans and all integer kinds
//	string     concrete strings
//	float64    concrete floats
//	Pointer    pointer to a storage cell (C == nil: nil pointer)
//	*Struct    struct value (immutable)
//	*Array     array value (immutable)
//	Slice
//	*Map       (nil: nil map)
//	*Chan      (nil: nil channel)
//	Iface      interface value (T == nil: nil interface)
//	*Closure   function value (nil: nil func)
//	Tuple
//	BigVal     value of a math/big.Int (or gabi/big.Int) struct
//	*Opaque    values of external types we do not look into
type Value interface{}

type Cell struct {
	V     Value
	Owner int // thread that allocated the cell (scheduler)
	// Shared marks cells reachable from more than one goroutine (scheduler).
	ID int
}

type StructObj struct{ F []*Cell }
type ArrObj struct{ E []*Cell }

type Pointer struct{ C *Cell }

type Struct struct{ F []Value }
type Array struct{ E []Value }

type Slice struct {
	A             *ArrObj
	Off, Len, Cap int
}

type MapEntry struct {
	K Value
	C *Cell
}
type Map struct {
	E []*MapEntry
}

type Chan struct {
	Buf    []Value
	Cap    int
	Closed bool
	// Stub channels produce values from a generator (used for stubbed producers).
	Gen func(ex *Exec) (Value, bool)
}

type Iface struct {
	T types.Type
	V Value
}

type Closure struct {
	Fn  *ssa.Function
	Env []Value
	// Builtin or external function value without SSA body
	Ext string
}

type Tuple []Value

type Opaque struct {
	Kind string
	Data interface{}
}

// BigVal is the value of a big integer cell.
type BigVal struct {
	I *smt.Term // integer value (always set)
	// G: meaning as an element of the multiplicative group modulo G.Mod
	G *GroupFacet
	// E: meaning as an exponent (Real); nil means to_real(I)
	E *smt.Term
	// Factors: if non-nil, I is the product of these (prime-flagged) terms
	Factors []*smt.Term
	// Tag is free-form provenance (e.g. random draw id)
	Tag string
}

type GroupFacet struct {
	Mod     *smt.Term            // modulus term identity
	Exps    map[string]*smt.Term // atom name -> Real exponent
	Reduced bool
}

func (b BigVal) Eval() *smt.Term {
	if b.E != nil {
		return b.E
	}
	return smt.ToReal(b.I)
}

func bigConst(v int64) BigVal { return BigVal{I: smt.I64(v)} }

// ---- type helpers ----

func isBigIntType(t types.Type) bool {
	n, ok := t.(*types.Named)
	if !ok {
		if a, ok := t.(*types.Alias); ok {
			return isBigIntType(types.Unalias(a))
		}
		return false
	}
	o := n.Obj()
	if o.Name() != "Int" || o.Pkg() == nil {
		return false
	}
	p := o.Pkg().Path()
	return p == "math/big" || strings.HasSuffix(p, "/gabi/big")
}

func isOpaqueType(t types.Type) (string, bool) {
	n, ok := types.Unalias(t).(*types.Named)
	if !ok || n.Obj().Pkg() == nil {
		return "", false
	}
	full := n.Obj().Pkg().Path() + "." + n.Obj().Name()
	switch full {
	case "time.Time", "sync.Mutex", "sync.RWMutex", "sync.WaitGroup", "sync.Once",
		"github.com/bwesterb/go-exptable.Table",
		"crypto/ecdsa.PublicKey", "crypto/ecdsa.PrivateKey", "os.File",
		"github.com/sirupsen/logrus.Logger", "github.com/go-errors/errors.Error",
		"math/rand.Rand", "crypto/sha256.digest", "sync.Map":
		return full, true
	}
	return "", false
}

type intKind struct {
	signed bool
	bits   uint
}

func intKindOf(t types.Type) (intKind, bool) {
	b, ok := t.Underlying().(*types.Basic)
	if !ok {
		return intKind{}, false
	}
	switch b.Kind() {
	case types.Int, types.Int64:
		return intKind{true, 64}, true
	case types.Int32:
		return intKind{true, 32}, true
	case types.Int16:
		return intKind{true, 16}, true
	case types.Int8:
		return intKind{true, 8}, true
	case types.Uint, types.Uint64, types.Uintptr:
		return intKind{false, 64}, true
	case types.Uint32:
		return intKind{false, 32}, true
	case types.Uint16:
		return intKind{false, 16}, true
	case types.Uint8:
		return intKind{false, 8}, true
	case types.UntypedInt, types.UntypedRune:
		return intKind{true, 64}, true
	}
	return intKind{}, false
}

func (k intKind) bounds() (lo, hi *big.Int) {
	if k.signed {
		lo = new(big.Int).Neg(smt.Pow2Big(k.bits - 1))
		hi = new(big.Int).Sub(smt.Pow2Big(k.bits-1), big.NewInt(1))
	} else {
		lo = big.NewInt(0)
		hi = new(big.Int).Sub(smt.Pow2Big(k.bits), big.NewInt(1))
	}
	return
}

func (k intKind) wrap(t *smt.Term) *smt.Term { return smt.Wrap(t, k.signed, k.bits) }

// zero returns the zero VALUE of a type.
func (ex *Exec) zero(t types.Type) Value {
	if isBigIntType(t) {
		return bigConst(0)
	}
	if k, ok := isOpaqueType(t); ok {
		return &Opaque{Kind: k}
	}
	switch u := t.Underlying().(type) {
	case *types.Basic:
		switch {
		case u.Info()&types.IsBoolean != 0:
			return smt.False
		case u.Info()&types.IsInteger != 0:
			return smt.I64(0)
		case u.Info()&types.IsString != 0:
			return ""
		case u.Info()&types.IsFloat != 0:
			return float64(0)
		case u.Kind() == types.UnsafePointer:
			return Pointer{}
		case u.Kind() == types.UntypedNil:
			return Pointer{}
		}
	case *types.Pointer:
		return Pointer{}
	case *types.Slice:
		return Slice{}
	case *types.Map:
		return (*Map)(nil)
	case *types.Chan:
		return (*Chan)(nil)
	case *types.Interface:
		return Iface{}
	case *types.Signature:
		return (*Closure)(nil)
	case *types.Struct:
		s := &Struct{F: make([]Value, u.NumFields())}
		for i := range s.F {
			s.F[i] = ex.zero(u.Field(i).Type())
		}
		return s
	case *types.Array:
		a := &Array{E: make([]Value, u.Len())}
		for i := range a.E {
			a.E[i] = ex.zero(u.Elem())
		}
		return a
	case *types.Tuple:
		tu := make(Tuple, u.Len())
		for i := range tu {
			tu[i] = ex.zero(u.At(i).Type())
		}
		return tu
	}
	panic(fmt.Sprintf("zero: unhandled type %s", t))
}

// alloc creates zeroed STORAGE for a type.
func (ex *Exec) alloc(t types.Type) *Cell {
	return ex.cellOf(ex.zero(t))
}

// cellOf creates storage holding v.
func (ex *Exec) cellOf(v Value) *Cell {
	ex.cellSeq++
	c := &Cell{ID: ex.cellSeq, Owner: ex.curThread()}
	switch x := v.(type) {
	case *Struct:
		so := &StructObj{F: make([]*Cell, len(x.F))}
		for i, f := range x.F {
			so.F[i] = ex.cellOf(f)
		}
		c.V = so
	case *Array:
		ao := &ArrObj{E: make([]*Cell, len(x.E))}
		for i, e := range x.E {
			ao.E[i] = ex.cellOf(e)
		}
		if h, ok := ex.digestVals[x]; ok {
			ex.digests[ao] = h
		}
		c.V = ao
	default:
		c.V = v
	}
	return c
}

func (ex *Exec) load(c *Cell) Value {
	switch s := c.V.(type) {
	case *StructObj:
		r := &Struct{F: make([]Value, len(s.F))}
		for i, f := range s.F {
			r.F[i] = ex.load(f)
		}
		return r
	case *ArrObj:
		r := &Array{E: make([]Value, len(s.E))}
		for i, e := range s.E {
			r.E[i] = ex.load(e)
		}
		return r
	}
	return c.V
}

func (ex *Exec) store(c *Cell, v Value) {
	switch s := c.V.(type) {
	case *StructObj:
		sv, ok := v.(*Struct)
		if !ok {
			panic(fmt.Sprintf("store: struct cell gets %T", v))
		}
		for i, f := range s.F {
			ex.store(f, sv.F[i])
		}
	case *ArrObj:
		av, ok := v.(*Array)
		if !ok {
			panic(fmt.Sprintf("store: array cell gets %T", v))
		}
		for i, e := range s.E {
			ex.store(e, av.E[i])
		}
		if h, ok := ex.digestVals[av]; ok {
			ex.digests[s] = h
		} else {
			delete(ex.digests, s)
		}
	default:
		c.V = v
	}
}

func term(v Value) *smt.Term {
	t, ok := v.(*smt.Term)
	if !ok {
		panic(fmt.Sprintf("expected term, got %T", v))
	}
	return t
}
