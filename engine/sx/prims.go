package sx

import (
	"fmt"
	"os"
	"math/big"
	"strings"

	"gabiverif/smt"

	"golang.org/x/tools/go/ssa"
)

func (ex *Exec) str(v Value) string {
	s, ok := v.(string)
	if !ok {
		panic(fmt.Sprintf("vp primitive needs a concrete string, got %T", v))
	}
	return s
}

func (ex *Exec) newBig(b BigVal) Value { return Pointer{C: ex.cellOf(b)} }

func bigOf(v Value) (BigVal, bool) {
	p, ok := v.(Pointer)
	if !ok || p.C == nil {
		return BigVal{}, false
	}
	b, ok := p.C.V.(BigVal)
	return b, ok
}

// prim implements the vp* primitives of the harness idiom.
func (ex *Exec) prim(fn *ssa.Function, args []Value) (Value, bool) {
	if len(args) > 0 {
		if n, ok := args[0].(string); ok && strings.HasPrefix(fn.Name(), "vp") {
			switch fn.Name() {
			case "vpBool", "vpInt", "vpInt64", "vpUint", "vpUint64", "vpByte", "vpIntRange", "vpChoose", "vpBig", "vpBigBits", "vpBigRange", "vpPrime", "vpModulus", "vpAtom", "vpOrder", "vpHalfOrder":
				ex.noteVar(n)
			}
		}
	}
	switch fn.Name() {
	case "vpNative":
		return smt.False, true
	case "vpAssume":
		c := term(args[0])
		if c.IsFalse() {
			ex.end(EndAssume, "assumption false")
		}
		if !c.IsTrue() {
			// prune infeasible paths early
			if !ex.feasible(c) {
				ex.end(EndAssume, "assumption infeasible")
			}
			ex.assume(c)
		}
		return nil, true
	case "vpAssert":
		ex.assert(ex.str(args[0]), term(args[1]))
		return nil, true
	case "vpReach":
		ex.reach(ex.str(args[0]))
		return nil, true
	case "vpGoroutines":
		return smt.I64(0), true
	case "vpSleepNative":
		return nil, true
	case "vpQuiesce":
		return smt.I64(int64(ex.quiesce())), true
	case "vpBool":
		return smt.Var(ex.str(args[0]), smt.Bool, nil, nil), true
	case "vpInt", "vpInt64":
		lo, hi := intKind{true, 64}.bounds()
		return smt.Var(ex.str(args[0]), smt.Int, lo, hi), true
	case "vpUint", "vpUint64":
		lo, hi := intKind{false, 64}.bounds()
		return smt.Var(ex.str(args[0]), smt.Int, lo, hi), true
	case "vpByte":
		return smt.Var(ex.str(args[0]), smt.Int, big.NewInt(0), big.NewInt(255)), true
	case "vpIntRange":
		lo, ok1 := term(args[1]).ConstInt64()
		hi, ok2 := term(args[2]).ConstInt64()
		if !ok1 || !ok2 {
			panic("vpIntRange needs constant bounds")
		}
		return smt.Var(ex.str(args[0]), smt.Int, big.NewInt(lo), big.NewInt(hi)), true
	case "vpChoose":
		n, ok := term(args[1]).ConstInt64()
		if !ok || n <= 0 {
			panic("vpChoose needs a constant positive count")
		}
		v := smt.Var(ex.str(args[0]), smt.Int, big.NewInt(0), big.NewInt(n-1))
		conds := make([]*smt.Term, n)
		for i := range conds {
			conds[i] = smt.Eq(v, smt.I64(int64(i)))
		}
		return smt.I64(int64(ex.choose(conds))), true
	case "vpBig":
		return ex.newBig(BigVal{I: smt.Var(ex.str(args[0]), smt.Int, nil, nil)}), true
	case "vpBigBits":
		n, ok := term(args[1]).ConstInt64()
		if !ok {
			panic("vpBigBits needs constant width")
		}
		hi := new(big.Int).Sub(smt.Pow2Big(uint(n)), big.NewInt(1))
		return ex.newBig(BigVal{I: smt.Var(ex.str(args[0]), smt.Int, big.NewInt(0), hi)}), true
	case "vpBigRange":
		lo, _ := bigOf(args[1])
		hi, _ := bigOf(args[2])
		l, ok1 := lo.I.ConstInt()
		h, ok2 := hi.I.ConstInt()
		if !ok1 || !ok2 {
			panic("vpBigRange needs constant bounds")
		}
		return ex.newBig(BigVal{I: smt.Var(ex.str(args[0]), smt.Int, l, h)}), true
	case "vpParam":
		d, _ := term(args[1]).ConstInt64()
		return smt.I64(int64(ex.Ob.Param(ex.str(args[0]), int(d)))), true
	case "vpSample":
		// record a rendered sample of a symbolic value for the evidence file
		if len(ex.samples) < 4 {
			ex.samples = append(ex.samples, ex.str(args[0])+" = "+describe(args[1]))
		}
		return nil, true
	case "vpNote":
		return nil, true
	case "vpAll", "vpAny":
		sl := args[0].(Slice)
		r := smt.BoolC(fn.Name() == "vpAll")
		for i := 0; i < sl.Len; i++ {
			c := term(ex.load(sl.A.E[sl.Off+i]))
			if fn.Name() == "vpAll" {
				r = smt.And(r, c)
			} else {
				r = smt.Or(r, c)
			}
		}
		return r, true
	case "vpImplies":
		return smt.Implies(term(args[0]), term(args[1])), true
	case "vpIff":
		return smt.Eq(term(args[0]), term(args[1])), true
	case "vpModulus":
		return ex.primModulus(ex.str(args[0]), term(args[1])), true
	case "vpAtom":
		return ex.primAtom(ex.str(args[0]), args[1]), true
	case "vpOrder":
		return ex.primOrder(ex.str(args[0]), args[1]), true
	case "vpHalfOrder":
		return ex.primHalfOrder(ex.str(args[0]), args[1]), true
	case "vpPrime":
		// a fresh value flagged prime (isprime asserted) in [lo,hi]
		lo, _ := bigOf(args[1])
		hi, _ := bigOf(args[2])
		l, _ := lo.I.ConstInt()
		h, _ := hi.I.ConstInt()
		v := smt.Var(ex.str(args[0]), smt.Int, l, h)
		ex.assume(isPrime(v))
		return ex.newBig(BigVal{I: v, Factors: []*smt.Term{v}}), true
	case "vpIsPrime":
		b, _ := bigOf(args[0])
		return isPrime(b.I), true
	case "vpSameGroupElem":
		a, _ := bigOf(args[0])
		b, _ := bigOf(args[1])
		return ex.bigEq(a, b), true
	case "vpExpOf":
		// exponent of atom `name` in the group-element meaning of x, as a
		// real-valued comparison helper: returns whether it equals the integer y
		panic("vpExpOf: not implemented")
	case "vpShuffle":
		if i, ok := args[0].(Iface); ok {
			args[0] = i.V
		}
		m := args[0].(*Map)
		if m == nil || len(m.E) < 2 {
			return nil, true
		}
		if len(m.E) > 5 {
			ex.unsupported("vpShuffle of %d entries", len(m.E))
		}
		// choose a permutation by successive selection
		rest := append([]*MapEntry{}, m.E...)
		var out []*MapEntry
		for len(rest) > 1 {
			v := ex.freshInt("perm", big.NewInt(0), big.NewInt(int64(len(rest)-1)))
			conds := make([]*smt.Term, len(rest))
			for i := range conds {
				conds[i] = smt.Eq(v, smt.I64(int64(i)))
			}
			i := ex.choose(conds)
			out = append(out, rest[i])
			rest = append(rest[:i:i], rest[i+1:]...)
		}
		m.E = append(out, rest...)
		return nil, true
	case "vpFreshError":
		return ex.freshError("vp"), true
	case "vpHashSame":
		a, _ := bigOf(args[0])
		b, _ := bigOf(args[1])
		return ex.bigEq(a, b), true
	}
	if strings.HasPrefix(fn.Name(), "vpx") {
		return ex.primExt(fn, args)
	}
	return nil, false
}

func isPrime(t *smt.Term) *smt.Term {
	if v, ok := t.ConstInt(); ok {
		return smt.BoolC(v.ProbablyPrime(20))
	}
	return smt.Eq(smt.App("isprime", smt.Int, big.NewInt(0), big.NewInt(1), t), smt.I64(1))
}

// reach records that a label is reachable with a satisfiable path condition.
func (ex *Exec) reach(label string) {
	if ex.reached[label] {
		return
	}
	key := "R" + label
	if _, ok := ex.P.cacheGet(key); ok {
		ex.reached[label] = true
		return
	}
	as := ex.constraints()
	r, _, _, _ := smt.Portfolio(as, false, ex.P.FinalLimit, false)
	if r == smt.Sat {
		ex.P.cachePut(key, smt.Sat)
		ex.reached[label] = true
	}
}

// assert discharges  PC => cond  with the final solver portfolio.
func (ex *Exec) assert(label string, cond *smt.Term) {
	ex.reach(label)
	ex.assertsSeen[label]++
	if cond.IsTrue() {
		return
	}
	neg := smt.Not(cond)
	var as []*smt.Term
	if cond.IsFalse() {
		// need a model of the whole path condition
		as = ex.constraints()
	} else {
		as = append(smt.Slice(ex.constraints(), neg), neg)
	}
	key := "A" + label + "#" + pcKey(as, nil)
	res, cached := ex.P.cacheGet(key)
	var model smt.Model
	var who, note string
	if !cached {
		relaxedUnsat := false
		if smt.Relaxable(as) {
			if r, _ := smt.PortfolioRelaxed(as, ex.P.FinalLimit); r == smt.Unsat {
				relaxedUnsat = true
				res, who = smt.Unsat, "relaxed-to-reals"
			}
		}
		if !relaxedUnsat {
			res, model, note, who = smt.Portfolio(as, true, ex.P.FinalLimit, false)
		}
		ex.nFinal++
		if res == smt.Sat && !cond.IsFalse() {
			// the sliced query has a model: get a complete one from the full path condition
			full := ex.constraints(neg)
			if len(full) > len(as) {
				r2, m2, _, w2 := smt.Portfolio(full, true, ex.P.FinalLimit, false)
				switch r2 {
				case smt.Sat:
					model, who = m2, w2
				case smt.Unsat:
					res = smt.Unsat // the path itself is infeasible
				default:
					res = smt.Unknown
					note = "sliced query sat but the full path condition could not be decided"
				}
			}
		}
		if !cached {
			ex.P.cachePut(key, res)
			ex.P.finalMu.Lock()
			ex.P.finals[key] = res
			ex.P.finalMu.Unlock()
			if len(ex.samples) < 3 {
				ex.samples = append(ex.samples, fmt.Sprintf("%s: PC(%d conjuncts) => %s : %s by %s", label, len(ex.pc), cond, res, who))
			}
		}
	}
	switch res {
	case smt.Unsat:
		ex.assume(cond)
	case smt.Sat:
		if !cached && os.Getenv("GSX_DEBUG") != "" {
			sc, _ := smt.Script(as, true)
			os.WriteFile(fmt.Sprintf("/tmp/gsx-finding-%s-%d.smt2", strings.ReplaceAll(label, " ", "_"), len(ex.taken)), []byte(sc), 0o644)
		}
		if !cached {
			ex.findings = append(ex.findings, &Finding{Label: label, Kind: "assert", Pos: ex.curPos,
				Msg: "assertion can fail: " + cond.String(), Model: model, Solver: who,
				Decisions: append([]int{}, ex.taken...), Trace: lastN(ex.trace, 60)})
		}
		// continue on the side where the assertion holds (if any)
		if cond.IsFalse() || !ex.feasible(cond) {
			ex.end(EndAssume, "after failed assertion")
		}
		ex.assume(cond)
	default:
		if !cached && os.Getenv("GSX_DEBUG") != "" {
			sc, _ := smt.Script(as, false)
			os.WriteFile(fmt.Sprintf("/tmp/gsx-inconcl-%s-%d.smt2", strings.ReplaceAll(label, " ", "_"), len(ex.taken)), []byte(sc), 0o644)
		}
		if !cached {
			ex.inconclusive = append(ex.inconclusive, fmt.Sprintf("%s @%s: %s", label, ex.curPos, note))
		}
		ex.assume(cond)
	}
}

func (ex *Exec) reportPanic(pe pathEnd) {
	as := ex.constraints()
	key := "P" + pe.Pos + "#" + pcKey(as, nil)
	if _, ok := ex.P.cacheGet(key); ok {
		return
	}
	res, model, note, who := smt.Portfolio(as, true, ex.P.FinalLimit, false)
	ex.nFinal++
	ex.P.cachePut(key, res)
	switch res {
	case smt.Sat:
		ex.findings = append(ex.findings, &Finding{Label: "no-panic", Kind: "panic", Pos: pe.Pos, Msg: pe.Msg,
			Model: model, Solver: who, Decisions: append([]int{}, ex.taken...), Trace: lastN(ex.trace, 60)})
	case smt.Unknown:
		ex.inconclusive = append(ex.inconclusive, fmt.Sprintf("panic path @%s: %s", pe.Pos, note))
	}
}

// NontrivialFinals counts distinct final queries answered unsat.
func (p *Program) NontrivialFinals() (unsat, total int) {
	p.finalMu.Lock()
	defer p.finalMu.Unlock()
	for _, r := range p.finals {
		total++
		if r == smt.Unsat {
			unsat++
		}
	}
	return
}

func (p *Program) ResetFinals() {
	p.finalMu.Lock()
	p.finals = map[string]smt.Result{}
	p.finalMu.Unlock()
}

func lastN(s []string, n int) []string {
	if len(s) > n {
		s = s[len(s)-n:]
	}
	return append([]string{}, s...)
}
